#!/bin/bash
# runs every quick check once (writes evidence); prints one line per property
cd /verif || exit 2
for p in C01 C02 C03 C04 C05 C06 C07 C08 C09 C10 C11 C12 C13 C14 C15 C16; do
  t0=$(date +%s)
  out=$(VERIF_SEED=${VERIF_SEED:-0} timeout 3600 ./check "$p" quick 2>&1 | grep -v '^proptest:' | grep -E 'VIOLATION|^OK|INCONCLUSIVE' | head -3 | tr '\n' ' ' | cut -c1-200)
  echo "$p $(( $(date +%s) - t0 ))s: $out"
done
