#!/usr/bin/env python3
"""Generate /verif/MANIFEST.json from the table below (kept in one place so the
manifest stays valid while checks are added)."""
import json, subprocess

HOOK_COMMITS = subprocess.run(
    ["git", "-C", "/repo", "log", "--format=%h %s", "--grep=^verif hooks"],
    capture_output=True, text=True).stdout.strip().splitlines()

CHECKS = {
 "C01": dict(
   technique="property-based testing: proptest-generated programs x histories (byte tape -> structured case), from-scratch reference interpreter as oracle, ddmin shrinking",
   category="exploration",
   text="Generated acyclic query programs (all five execution styles, conditional/data-dependent/concurrent/unordered/spawned reads) and histories of sessions, refreshes, world changes and queries are run on InMemoryStorageEngine and on DbBacked<MockKv> (cache capacity 1..64, generated commit placement and grouping); every value returned to the user and every value an executor receives for a dependency is compared with a from-scratch interpretation of the same program on the committed inputs; all queried nodes are re-queried at the end. Exploration, not proof: absence of a counterexample in the explored cases only.",
   design_ref="DESIGN.md section 3 C01, section 7 (KF1)",
   note="Trusted base: the reference interpreter (vcore/src/prog.rs Oracle), the harness executors, MockKv (validated by the C11 model). Known finding KF1 is excluded by construction (histories are continued behind it through repair_transitive_firewall_callees); small integer values; <= 24 nodes quick / 80 thorough.",
   engine="E1 sequential interpreter"),
 "C03": dict(
   technique="property-based testing: same generated histories as C01, invariant over the executor invocation log (each run must be justified by a changed previously-read value)",
   category="exploration",
   text="Every executor invocation logged by the harness executors is judged: it is justified iff the node never completed before or some value its previous completed run read now differs (reference interpreter); at most one completed run per node between two sessions; external-input executors run only on first demand or refresh; a session that changes nothing dirties nothing. Needs no engine internals.",
   design_ref="DESIGN.md section 3 C03",
   note="Histories without cancellation/panics/crashes (the property's own quantifier). Starts aborted by the engine itself (JoinSet::abort_all) are counted, must be justified, but are not 'runs twice'. Same trusted base as C01.",
   engine="E1 sequential interpreter"),
}

NOT_YET = {
}

ALL = [f"C{i:02d}" for i in range(1, 17)]

def main():
    checks = []
    for pid in ALL:
        if pid not in CHECKS:
            continue
        c = CHECKS[pid]
        checks.append({
            "property_id": pid,
            "quick_cmd": f"./check {pid} quick",
            "thorough_cmd": f"./check {pid} thorough",
            "evidence_file": f"/verif/evidence/{pid}.json",
            "replay_cmd_template": f"./check {pid} replay {{path}}",
            "engine": c["engine"],
            "level_claimed": {"category": c["category"], "text": c["text"], "design_ref": c["design_ref"]},
            "level_note": c["note"],
            "technique": c["technique"],
        })
    na = []
    for pid in ALL:
        if pid not in CHECKS:
            na.append({"property_id": pid, "reason": NOT_YET.get(pid, "check not completed yet in this session (property-based check designed in DESIGN.md section 3; not claimed until built, stable over several seeds and sensitive to seeded changes)")})
    m = {
        "version": 1,
        "setup_cmd": "./check setup",
        "hooks": {
            "guard": "cargo feature verif_hooks (crates qbice and qbice_storage)",
            "enable": "harness crates depend on /repo/crates/* by path with features qbice/verif_hooks + qbice_storage/verif_hooks (vcore feature 'hooks', on by default)",
            "baseline_off_cmd": "cd /repo && cargo nextest run --workspace --no-fail-fast --tool-config-file pb:/w/lib/nextest.toml --profile pb --test-threads 8 --offline || cargo test --workspace --no-fail-fast --offline",
            "source_commits": [l.split()[0] for l in HOOK_COMMITS],
            "add_only": True,
        },
        "engines": [
            {"name": "E1 sequential interpreter", "path": "harness/vcore/src/seq.rs", "serves_properties": ["C01", "C03", "C07"], "kind_free_text": "program/history interpreter with from-scratch oracle, proptest driver (harness/vcore/src/driver.rs)"},
            {"name": "E3 MockKv", "path": "harness/vcore/src/mockkv.rs", "serves_properties": ["C01", "C03", "C07", "C08", "C09", "C10"], "kind_free_text": "scripted logging KvDatabase with commit gate, grouping policy, prefix re-materialisation"},
        ],
        "checks": checks,
        "not_applicable": na,
        "notes": "All checks: exit 0 held / 1 VIOLATION / 2 inconclusive. VERIF_SEED seeds proptest (default 0). Known findings: /verif/known_findings.json. Replays: /verif/replays/*.json (structured cases).",
    }
    json.dump(m, open("/verif/MANIFEST.json", "w"), indent=1)
    print("wrote MANIFEST.json with", len(checks), "checks;", len(na), "not_applicable")

main()
