#!/usr/bin/env python3
"""Generate /verif/MANIFEST.json from the table below (kept in one place so the
manifest stays valid while checks are added)."""
import json, subprocess

HOOK_COMMITS = subprocess.run(
    ["git", "-C", "/repo", "log", "--format=%h %s", "--grep=^verif hooks"],
    capture_output=True, text=True).stdout.strip().splitlines()

CHECKS = {
 "C01": dict(
   technique="property-based testing: proptest-generated programs x histories (byte tape -> structured case), from-scratch reference interpreter as oracle, ddmin shrinking; thorough tier adds a coverage-guided libFuzzer campaign (cargo-fuzz target fz_c01_engine, ASan, 16 forked workers) over the same decoder and oracle",
   category="exploration",
   text="Generated acyclic query programs (all five execution styles, conditional/data-dependent/concurrent/unordered/spawned reads) and histories of sessions, refreshes, world changes and queries are run on InMemoryStorageEngine and on DbBacked<MockKv> (cache capacity 1..64, generated commit placement and grouping); every value returned to the user and every value an executor receives for a dependency is compared with a from-scratch interpretation of the same program on the committed inputs; all queried nodes are re-queried at the end. Exploration, not proof: absence of a counterexample in the explored cases only.",
   design_ref="DESIGN.md section 3 C01, section 7 (KF1)",
   note="Trusted base: the reference interpreter (vcore/src/prog.rs Oracle), the harness executors, MockKv (validated by the C11 model). Known finding KF1 is excluded by construction (histories are continued behind it through repair_transitive_firewall_callees); small integer values; <= 24 nodes quick / 80 thorough.",
   engine="E1 sequential interpreter"),
 "C03": dict(
   technique="property-based testing: same generated histories as C01, invariant over the executor invocation log (each run must be justified by a changed previously-read value)",
   category="exploration",
   text="Every executor invocation logged by the harness executors is judged: it is justified iff the node never completed before or some value its previous completed run read now differs (reference interpreter); at most one completed run per node between two sessions; external-input executors run only on first demand or refresh; a session that changes nothing dirties nothing. Needs no engine internals.",
   design_ref="DESIGN.md section 3 C03",
   note="Histories without cancellation/panics/crashes (the property's own quantifier). Starts aborted by the engine itself (JoinSet::abort_all) are counted, must be justified, but are not 'runs twice'. Same trusted base as C01.",
   engine="E1 sequential interpreter"),
 "C07": dict(
   technique="property-based testing: generated histories with Restart steps on DbBacked<MockKv>; from-scratch oracle + justified-execution oracle carried across the restart",
   category="exploration",
   text="C01 histories with clean restarts (drop every handle, wait until the Arc<Engine> is gone, reopen on the same MockKv store with the same hasher seed and freshly registered executors) inserted at generated positions; cache capacity 1..64, 1..3 serializer workers, commit placement (free-running / drained per step / only at generated Release steps) and physical grouping from the case. After a restart no input is re-set; every value must equal the from-scratch value, and every executor invocation after the restart must be justified by the read sets remembered from before the restart (so results that were up to date are served without running anything, external inputs included).",
   design_ref="DESIGN.md section 3 C07",
   note="MockKv stands in for the real backends (same KvDatabase trait; it is validated by the C11 model). Real-backend restarts are part of the thorough tier only when the vbackends binary is built. KF1 excluded by construction.",
   engine="E1 sequential interpreter"),
 "C08": dict(
   technique="fault enumeration inside a property-based search: for every generated history EVERY prefix of MockKv's physical commit log is re-materialised and a new engine is opened on it; oracle = some-earlier-session rule + from-scratch interpreter",
   category="fault_enumeration",
   text="For each generated history on DbBacked<MockKv> the ordered log of physical commits is recorded; every prefix (exhaustive per history, all groupings of logical into physical batches that the generated policy produces) is turned into a store, an engine is opened on it, all inputs are read (they must equal the inputs of one committed session, all from the same session; external inputs either still frozen as of that session or re-read from the current world), every node is queried (must equal the from-scratch value for that session, recomputation allowed), and the recovered engine must then accept an edit, queries and a clean restart with correct answers.",
   design_ref="DESIGN.md section 3 C08",
   note="Fault model is the property's own (atomic physical commits, prefix durability). SIGKILL of real backends is not part of the quick tier. KF1 excluded by construction (transitive firewalls of stored nodes are repaired through the public API before querying).",
   engine="E1 + E3 crash images"),
 "C09": dict(
   technique="model-based property testing: generated op streams over the three cached map kinds on DbBacked<MockKv> with generated commit placement, reference maps as oracle; thorough tier adds a coverage-guided libFuzzer campaign (cargo-fuzz target fz_c09_maps, ASan, 16 forked workers) over the same decoder and oracle",
   category="exploration",
   text="Op streams (new batch / write into any open batch / bulk inserts across the 1024 spill threshold / submit in any order / release k physical commits with or without waiting for the cache notifications / get) over CacheSingleMap (two value types in one column), CacheDynamicMap and CacheKeyOfSetMap with cache capacity 1..16 far below the key universe. Every read must equal the reference model of all writes issued so far (negative entries included), at every Get, before the final drain, after it and in a second pass.",
   design_ref="DESIGN.md section 3 C09",
   note="Single-threaded streams: the placement of commits/notifications between operations is generated, true parallel races inside one cache operation are only reached by the OS-thread stress part when built (see DESIGN.md limits). Generator precondition: writes to one key through different open batches are issued in creation order.",
   engine="E4 storage model harness"),
 "C10": dict(
   technique="model-based property testing: generated multi-threaded submission plans through the public maps into WriteBehind<MockKv>; oracle = sequential application in creation order + commit-log invariant",
   category="exploration",
   text="Plans with 1..4 serializer workers, 1..8 submitting OS threads, up to 60 (thorough 200) batches created in one global order, filled with overlapping puts/deletes/member ops and submitted in a generated permutation, generated physical grouping and gate permits. Immediately after drop(WriteBehind) returns, the store must equal the sequential application of the batches in creation order and the commit log must list every batch exactly once in creation order.",
   design_ref="DESIGN.md section 3 C10",
   note="Interleavings of the pipeline threads are sampled by the OS; the oracle is interleaving independent. MockKv is the store (its own atomic commit is trusted).",
   engine="E4 storage model harness"),
 "C02": dict(
   technique="property-based testing with an owned schedule: generated programs x rounds of concurrent reader tasks scheduled on one thread by a generated tape at awaits and verif_hooks points; plus generated OS-thread stress plans of the backward-edge set with interleaving-independent oracles",
   category="exploration",
   text="(1) Rounds of 2..6 concurrent query tasks over overlapping roots run as plain futures under a tape-driven select loop (hooks make the engine's internal awaits and a few preemption points schedulable); every returned value and every dependency read must equal the from-scratch value, no query key may be inside two executors at once (harness enter/exit counters), the idle-runtime oracle detects deadlocks/lost wake-ups without a wall clock, and every round is followed by an input edit and a re-query of all nodes (lost backward edges show there). (2) OS-thread plans (2..16 threads, disjoint element ranges, crossing the 32-element tier) on the engine's CompressedBackwardEdgeSet and on Arc<DashSet>: insert/remove return values, iterate-after-insert visibility and final content against a model.",
   design_ref="DESIGN.md section 3 C02",
   note="Schedules are a subset of the real ones (interleaving only at awaits/hook points; OS-thread plans sample what the OS gives). The 16-worker engine stress with fan-in above the 1024 spill threshold belongs to the thorough tier. KF1 excluded by construction.",
   engine="E2 single-thread scheduler + E7 thread stress"),
 "C04": dict(
   technique="property-based testing with an owned schedule: generated writer/reader task mixes scheduled by a tape at awaits and verif_hooks points; oracle = every tracked engine sees exactly one committed snapshot within its [lo,hi] window",
   category="exploration",
   text="One writer task (sessions of 0..3 set_input, commit() or drop) runs concurrently with 1..4 reader tasks (tracked(); queries; drop) on one thread; the tape decides the poll order at every await and at the hook points placed between the individual steps of input_session() and tracked(). All values one tracked engine receives must be the from-scratch values of a single committed snapshot k with lo <= k <= hi (lo = sessions finished before tracked() was called, hi = sessions started before it returned); a fresh reader after the phase must see the last snapshot; progress by the idle-runtime oracle. On InMemoryStorageEngine and DbBacked<MockKv>.",
   design_ref="DESIGN.md section 3 C04",
   note="Programs of In/Nq nodes only (the property is about the phase lock and the timestamp, firewalls would only add KF1). Dependency reads inside executors are not attributed to a snapshot (only user-level values are judged).",
   engine="E2 single-thread scheduler"),
 "C06": dict(
   technique="property-based testing: generated small digraph programs with guarded cycle edges x histories of guard-flipping edits and query rounds (sequential or concurrent roots under the tape scheduler); oracle = validity predicate over values + executor log, idle-runtime and hook-count progress oracles",
   category="exploration",
   text="Programs with an acyclic base, 2..6 nodes with declared cycle defaults that read anything including themselves through edges guarded by pure-input conditions, and observers. Every round queries every node (generated order; 1..4 concurrent tasks scheduled by the tape + hooks). Termination: the paused-clock idle-runtime oracle (deadlock) and a deterministic hook-count budget (livelock). Values: a node unwound by the cycle signal evaluates to its declared default and lies on a cycle of the read graph under the committed inputs; every other node equals its expression over the values the engine reports for its dependencies; every cycle contains a defaulted node; edits that create/remove cycles are followed by full re-queries.",
   design_ref="DESIGN.md section 3 C06, section 7 (KF2, KF3)",
   note="Validity predicate, not one expected answer (which member breaks a cycle depends on who enters first). KF2 (firewall as a cycle member: livelock) excluded by construction: firewalls stay off every statically possible cycle; KF3 (stale default after the cycle is gone) tolerated only for defaults assigned in an earlier round, counted in evidence. InMemoryStorageEngine only.",
   engine="E2 single-thread scheduler"),
 "C05": dict(
   technique="fault enumeration inside a property-based search: generated histories x one fault (future dropped after k Pending returns with every yield hook yielding once, k enumerated over the measured suspension points; or an injected executor panic); oracle = panic hook + idle-runtime oracle + from-scratch values + restart/persistence-gap check",
   category="fault_enumeration",
   text="For generated programs and histories one call is faulted: a query, input_session(), set_input, update, refresh or commit future is dropped after exactly k Pending returns while every verif_hooks yield point yields once (so k ranges over the engine's own suspension points: inside repair, firewall repair, backward projection, between unwiring and re-wiring edges, around publishing), optionally with a sibling reader task in flight; or a chosen executor panics with a marker payload. Afterwards: no panic other than the marker may occur (thread-local hook), the panic reaches the caller iff the flagged executor ran, every later step completes (idle-runtime oracle), every node has its from-scratch value, and on DbBacked<MockKv> a clean restart must find every submitted batch in the store (exact persistence-gap check) and answer correctly, followed by an edit and re-query.",
   design_ref="DESIGN.md section 3 C05",
   note="Quick tier: <= 8 values of k per case spread over the measured range; thorough: all k. preempt_point hooks never yield in cancellation mode, so no future is dropped where the real code cannot be suspended. A cancelled set_input/update/refresh may have had no effect or its full effect.",
   engine="E2 single-thread scheduler"),
 "C12": dict(
   technique="property-based testing over a compile-time type universe: proptest tapes decoded into boundary-biased values of ~930 (+15 with smallvec/bitvec) monomorphised types; round-trip / cursor-position / back-to-back / prefix-freeness oracles; exhaustive enumeration of 8- and 16-bit integers and all varint boundaries; thorough tier adds a coverage-guided libFuzzer campaign (cargo-fuzz target fz_c12_decode, ASan, 16 forked workers) over the same decoder and oracle",
   category="exploration",
   text="Every leaf type, every unary constructor over every leaf, binary constructors over leaf pairs, a fixed sample of depth-2/3 types and derived structs/enums (generic, skipped fields, same name in two modules) are instantiated at compile time; for generated values: decode(encode(v)) equals v (semantic equality: NaNs identified, unordered collections as sets), the decoder's cursor ends exactly where the encoder stopped (trailer appended), two values written back to back are read back in sequence, and no proper prefix of an encoding decodes completely. All u8/i8/u16/i16 values and every 2^(7k)+{-1,0,1}, 2^(8k)+-1, MIN/MAX of wider integers are enumerated. Built and run twice (without and with smallvec+bitvec); a supervisor process isolates aborts (absurd allocations) to a type.",
   design_ref="DESIGN.md section 3 C12",
   note="The universe is a finite sample of an infinite closure (depth <= 3). Interned handles are checked by C15.",
   engine="E5 type universe"),
 "C13": dict(
   technique="property-based testing over the type universe with an instrumented recording hasher; metamorphic relations (construction history, serialization round trip, neighbour values); differential comparison of three independent processes",
   category="exploration",
   text="For every type with StableHash: a generated value, the same logical value rebuilt through another construction history (reversed insertion order, different capacity, fresh RandomState) and decode(encode(v)) hash equally under three hasher keys; a neighbour value (one tape byte changed) that differs from v must feed a different byte stream to a recording hasher, neither stream a proper prefix of the other, and get a different 128-bit hash. Three separately started processes print the hashes of a fixed value list and all type ids; outputs are compared byte for byte.",
   design_ref="DESIGN.md section 3 C13",
   note="Cannot see 128-bit SipHash collisions; the claim checked is 'different values => different unambiguous streams'. 0.0 and -0.0 are different values, all NaNs one value (documented normalisation).",
   engine="E5 type universe"),
 "C14": dict(
   technique="exhaustive pairwise comparison of ~1000 compile-time type-id constants + generated search over a differentially validated term mirror of the id computation; query-id uniqueness over generated keys; cross-process comparison",
   category="exploration",
   text="(a) the STABLE_TYPE_ID constants of every type of the universe plus an id-only list of permuted / re-nested / re-ordered instantiations (tuples to arity 6, arrays, Result, maps, wrappers, pointers, cells, atomics, derived generics) are compared pairwise by canonical type name; (b) a term mirror computes ids with the real from_unique_type_name/combine in the shape of the impls, is validated against real constants per constructor, and 6 million (thorough 60 million) generated terms plus their structural neighbours are checked for id collisions and combine laws; (c) QueryIDs of the seven harness query types over 3000 keys x 2 hasher seeds; (d) ids printed by three processes are compared (with C13).",
   design_ref="DESIGN.md section 3 C14",
   note="An accidental 128-bit collision outside the explored set cannot be excluded. Engine-visible aliasing is additionally covered by every C01 run (all query types share every key payload).",
   engine="E5/E6 type universe"),
 "C11": dict(
   technique="model-based (stateful) property testing: generated batch/commit/drop/reopen histories over a typed column zoo run against MockKv, RocksDB and Fjall, typed reference maps as oracle, full read-back after every step; thorough tier adds a coverage-guided libFuzzer campaign (cargo-fuzz target fz_c11_mock, ASan, 16 forked workers) over the same decoder and oracle",
   category="exploration",
   text="Histories over 13 wide columns (keys (), u8, u64, String, Vec<u8>, (u8,Vec<u8>), Option<Vec<u8>>, Vec<Vec<u8>>, Compact128; prefixed and suffixed discriminants; discriminant types u8, (), (StableTypeID, enum); two value types per key) and 5 key-of-set columns ((), QueryID, strings, byte strings), with keys and elements drawn to be prefixes/extensions of one another, empty, 0xFF/0x00-heavy, length-prefix look-alikes and 4 KiB long. Batches are built directly or through a serialization buffer, committed or dropped; the store is reopened (all handles dropped, same directory / same Store). After every step every touched (column, key, value type) and every touched set key is read back: a point read must return the last committed value of exactly that key, a scan exactly the committed members of exactly that key with no duplicates; uncommitted batches must be invisible; content must survive reopen. Run on MockKv (vcheck) and on real RocksDB and Fjall databases in scratch directories (vbackends).",
   design_ref="DESIGN.md section 3 C11",
   note="Single-threaded histories against each backend (concurrent use of one backend handle is exercised by C10 through MockKv only). OS-crash durability of the real backends (fsync behaviour) is outside the property and not tested. RocksDB/Fjall themselves are trusted below the KvDatabase adapter.",
   engine="E8 backend model"),
 "C15": dict(
   technique="property-based testing: generated OS-thread plans on the Interner with a witness table as oracle, placements parked at a hook point inside intern(), and round-trip + pointer-sharing oracle over generated structures of interned handles",
   category="exploration",
   text="(a) plans for 2..8 (thorough 16) OS threads over few values x six value types (String, str, [u8], a derived struct, u32 and a newtype with the same hash stream as u32): intern / intern_unsized / get_from_hash / clone / drop / vacuum / request_vacuum on interners with 2..64 shards, with and without the vacuum thread; a witness table checks that registered live handles of equal values are one allocation, contents equal the value, and values of different types never share an entry. (b) thread A parked (verif_hooks sync point) between the read miss and the write-lock re-check while B interns/keeps, interns/drops or vacuums. (c) generated structures with repeated Interned handles at several nestings are encoded once and decoded with the same and with a fresh interner: equal, exactly consumed, pointer-sharing pattern reproduced, every decoded handle canonical.",
   design_ref="DESIGN.md section 3 C15",
   note="Thread plans sample the OS scheduler except at the one parked hook point; the oracle is interleaving independent.",
   engine="E9 interner/LFU harness"),
 "C16": dict(
   technique="model-based property testing: generated op streams on TinyLFU with a pin-aware reference map and a residency bound; generated multi-task lock plans on the engine's query lock table with in-critical-section witness counters; thorough tier adds a coverage-guided libFuzzer campaign (cargo-fuzz target fz_c16_lfu, ASan, 16 forked workers) over the same decoder and oracle",
   category="exploration",
   text="Op streams of 50..950 (thorough 3000) operations on TinyLFU<u16, value, listener> for capacities {1,2,3,8,33,100,300}, both unpin strategies and both maintenance modes, key universe 4x..20x capacity with skewed popularity: get / insert-if-vacant / upsert / remove / pin / unpin (+ notification) / touch. Oracle: a get returns the latest version or None, None only for keys that are not pinned, never a removed version; a pinned key is always resident with its latest value; resident entries stay within capacity + pinned + the documented maintenance slack (judged only in piggy-back maintenance mode, where maintenance is deterministic). Lock-table runs: the engine's query lock manager (through the verif_hooks wrapper) with capacity 1..8, 2..16 tasks on an 8-worker runtime taking shared/exclusive locks on 2..64 ids; witness counters inside the critical section detect two holders of an exclusive lock or a reader beside a writer.",
   design_ref="DESIGN.md section 3 C16",
   note="The residency bound's slack constants are taken from the implementation (MAINTENANCE_BATCH_SIZE) and stated in the evidence rule. In dedicated-thread maintenance mode only the value/pin oracle is judged (residency there depends on when the thread runs).",
   engine="E9 interner/LFU harness"),
}

NOT_YET = {
}

ALL = [f"C{i:02d}" for i in range(1, 17)]

def main():
    checks = []
    for pid in ALL:
        if pid not in CHECKS:
            continue
        c = CHECKS[pid]
        checks.append({
            "property_id": pid,
            "quick_cmd": f"./check {pid} quick",
            "thorough_cmd": f"./check {pid} thorough",
            "evidence_file": f"/verif/evidence/{pid}.json",
            "replay_cmd_template": f"./check {pid} replay {{path}}",
            "engine": c["engine"],
            "level_claimed": {"category": c["category"], "text": c["text"], "design_ref": c["design_ref"]},
            "level_note": c["note"],
            "technique": c["technique"],
        })
    na = []
    for pid in ALL:
        if pid not in CHECKS:
            na.append({"property_id": pid, "reason": NOT_YET.get(pid, "check not completed yet in this session (property-based check designed in DESIGN.md section 3; not claimed until built, stable over several seeds and sensitive to seeded changes)")})
    m = {
        "version": 1,
        "setup_cmd": "./check setup",
        "hooks": {
            "guard": "cargo feature verif_hooks (crates qbice and qbice_storage)",
            "enable": "harness crates depend on /repo/crates/* by path with features qbice/verif_hooks + qbice_storage/verif_hooks (vcore feature 'hooks', on by default)",
            "baseline_off_cmd": "cd /repo && cargo nextest run --workspace --no-fail-fast --tool-config-file pb:/w/lib/nextest.toml --profile pb --test-threads 8 --offline || cargo test --workspace --no-fail-fast --offline",
            "source_commits": [l.split()[0] for l in HOOK_COMMITS],
            "add_only": True,
        },
        "engines": [
            {"name": "E1 sequential interpreter", "path": "harness/vcore/src/seq.rs", "serves_properties": ["C01", "C03", "C07"], "kind_free_text": "program/history interpreter with from-scratch oracle, proptest driver (harness/vcore/src/driver.rs)"},
            {"name": "E2 single-thread scheduler", "path": "harness/vcore/src/sched.rs", "serves_properties": ["C02", "C04", "C05", "C06"], "kind_free_text": "tape-driven select loop over harness futures + verif_hooks controller; idle-runtime deadlock oracle (paused tokio clock)"},
            {"name": "E7 thread stress", "path": "harness/vcore/src/ck_sets.rs", "serves_properties": ["C02"], "kind_free_text": "generated OS-thread plans with interleaving-independent oracles"},
            {"name": "E5 type universe", "path": "harness/vtypes/src/main.rs", "serves_properties": ["C12", "C13", "C14"], "kind_free_text": "macro-generated monomorphised type list with value generators, recording hasher, term mirror; supervisor/worker process isolation"},
            {"name": "E8 backend model", "path": "harness/vcore/src/ck_backend.rs", "serves_properties": ["C11"], "kind_free_text": "history interpreter generic over KvDatabase with typed reference maps; harness/vbackends runs it on RocksDB and Fjall"},
            {"name": "E9 interner/LFU harness", "path": "harness/vcore/src/ck_intern.rs", "serves_properties": ["C15", "C16"], "kind_free_text": "OS-thread plans with witness tables (ck_intern.rs), op streams with reference map (ck_lfu.rs)"},
            {"name": "E10 libFuzzer targets", "path": "harness/fuzz/fuzz_targets", "serves_properties": ["C01", "C09", "C11", "C12", "C16"], "kind_free_text": "cargo-fuzz (nightly, ASan) wrappers around the byte -> case decoders and oracles of vcore; run by tools/fuzz_campaign.sh in the thorough tier, crash artefacts become replay files"},
            {"name": "E4 storage model harness", "path": "harness/vcore/src/ck_storage.rs", "serves_properties": ["C09", "C10"], "kind_free_text": "op-stream interpreters over the public storage types with reference models"},
            {"name": "E3 MockKv", "path": "harness/vcore/src/mockkv.rs", "serves_properties": ["C01", "C03", "C07", "C08", "C09", "C10", "C11"], "kind_free_text": "scripted logging KvDatabase with commit gate, grouping policy, prefix re-materialisation"},
        ],
        "checks": checks,
        "not_applicable": na,
        "notes": "All checks: exit 0 held / 1 VIOLATION / 2 inconclusive. VERIF_SEED seeds proptest (default 0). Known findings: /verif/known_findings.json. Replays: /verif/replays/*.json (structured cases).",
    }
    json.dump(m, open("/verif/MANIFEST.json", "w"), indent=1)
    print("wrote MANIFEST.json with", len(checks), "checks;", len(na), "not_applicable")

main()
