#!/bin/bash
# verify_seed.sh <seed dir name> : confirms a seeded change in /tmp/vw, a scratch worktree of /repo HEAD
# (created here if missing; build output in /tmp/vw_target). When done with all seeds:
#   git -C /repo worktree remove --force /tmp/vw; rm -rf /tmp/vw_target
set -u
n="$1"; S=/verif/seeded/$n; W=/tmp/vw
export CARGO_TARGET_DIR=/tmp/vw_target CARGO_NET_OFFLINE=true
[ -d $W ] || git -C /repo worktree add -q --detach $W HEAD
cd $W || exit 2
git checkout -q -- . ; git clean -fdq crates
install_demo() {
  case "$n" in
    C01-*|C03-*) cp $S/demo/seeded_demo.rs crates/integration_test/tests/seeded_demo.rs
       printf '\n[[test]]\nname = "seeded_demo"\npath = "tests/seeded_demo.rs"\n' >> crates/integration_test/Cargo.toml
       DEMO="cargo test -p qbice_integration_test --offline --test seeded_demo";;
    C08-*) cp $S/demo/crash_prefix_consistency.rs crates/integration_test/tests/
       printf '\n[[test]]\nname = "crash_prefix_consistency"\npath = "tests/crash_prefix_consistency.rs"\n' >> crates/integration_test/Cargo.toml
       DEMO="cargo test -p qbice_integration_test --offline --test crash_prefix_consistency";;
    C09-*) mkdir -p crates/storage/tests; cp $S/demo/c09_pin_released_by_older_commit.rs crates/storage/tests/
       DEMO="cargo test -p qbice_storage --offline --test c09_pin_released_by_older_commit";;
    *) . $S/demo/install.sh;;
  esac
}
install_demo
echo "== demo WITHOUT patch"; $DEMO 2>&1 | grep -E "^test |test result|error" | head -20
echo "== apply patch"; git apply $S/patch.diff || { echo "PATCH DOES NOT APPLY"; exit 1; }
echo "== demo WITH patch"; $DEMO 2>&1 | grep -E "^test |test result|error|panicked" | head -20
echo "== existing tests WITH patch (demo removed)"
git checkout -q -- crates/integration_test/Cargo.toml; git clean -fdq crates
cargo test --workspace --no-fail-fast --offline > /tmp/vw_tests.log 2>&1
grep -E "^test .* FAILED|^error" /tmp/vw_tests.log | head; echo "passed: $(grep -c '^test .* ok' /tmp/vw_tests.log)"
git checkout -q -- . ; git clean -fdq crates
