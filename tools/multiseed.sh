#!/bin/bash
# tools/multiseed.sh "<props>" "<seeds>" [tier]  -- stability run on the unchanged tree
# prints one line per (property, seed); evidence files are left untouched.
props="${1:-C01 C02 C03 C04 C05 C06 C07 C08 C09 C10 C11 C12 C13 C14 C15 C16}"
seeds="${2:-0 1 2 3}"
tier="${3:-quick}"
cd /verif || exit 2
for p in $props; do
  for s in $seeds; do
    t0=$(date +%s)
    out=$(VERIF_SEED=$s VERIF_NO_EVIDENCE=1 timeout 3600 ./check "$p" "$tier" 2>&1 | grep -v '^proptest:' | tail -3 | tr '\n' ' ')
    echo "$p seed=$s $(( $(date +%s) - t0 ))s: $out"
  done
done
