#!/bin/bash
# tools/seed_eval.sh <dir under /verif/seeded or /verif/mutants/*.patch> <Cxx> [<Cxx>...]
# Applies the change to /repo (git apply), runs the quick checks named, and
# restores /repo (git checkout -- .) whatever happens. Evidence files are not
# touched (VERIF_NO_EVIDENCE=1); replays written by a detection go to
# /verif/target/seed-replays/ and not to /verif/replays.
set -u
what="$1"; shift
if [ -d "/verif/seeded/$what" ]; then patch="/verif/seeded/$what/patch.diff"; else patch="$what"; fi
cd /verif || exit 2
if ! git -C /repo diff --quiet; then echo "/repo has local changes; refusing"; exit 2; fi
git -C /repo apply "$patch" || { echo "patch does not apply"; exit 2; }
trap 'git -C /repo checkout -- .' EXIT
mkdir -p /verif/target/seed-replays
for p in "$@"; do
  t0=$(date +%s)
  out=$(VERIF_SEED=${VERIF_SEED:-0} VERIF_NO_EVIDENCE=1 VERIF_REPLAY_DIR=/verif/target/seed-replays timeout 3600 ./check "$p" quick 2>&1 | grep -v '^proptest:' | grep -E 'VIOLATION|^OK|INCONCLUSIVE|^  ' | head -4 | cut -c1-400)
  echo "[$what] $p quick ($(( $(date +%s) - t0 ))s): $out"
done
