#!/bin/bash
# runs every thorough check once (evidence goes to /verif/target/thorough-evidence, the committed quick evidence is restored)
cd /verif || exit 2
mkdir -p target/thorough-evidence target/quick-evidence-backup
cp -f evidence/*.json target/quick-evidence-backup/
for p in ${1:-C13 C14 C15 C10 C05 C04 C02 C07 C09 C16 C06 C11 C12 C03 C01 C08}; do
  t0=$(date +%s)
  out=$(VERIF_SEED=${VERIF_SEED:-0} timeout 7200 ./check "$p" thorough 2>&1 | grep -v '^proptest:' | grep -E 'VIOLATION|^OK|INCONCLUSIVE|^  ' | head -4 | tr '\n' ' ' | cut -c1-300)
  echo "$p $(( $(date +%s) - t0 ))s: $out"
  cp -f evidence/$p.json target/thorough-evidence/$p.json
  cp -f target/quick-evidence-backup/$p.json evidence/$p.json
done
