#!/bin/bash
# tools/seed_regress.sh : every seeded change against the quick check of its property
# (git -C /repo apply / checkout through tools/seed_eval.sh); prints CAUGHT/MISSED.
cd /verif || exit 2
for d in seeded/*/; do
  id=$(basename "$d")
  prop=$(python3 -c "import json,sys;print(json.load(open(sys.argv[1]))['property'])" "$d/meta.json" 2>/dev/null || echo "${id:0:3}")
  out=$(tools/seed_eval.sh "$id" "$prop" 2>&1 | grep "^\[" | head -1)
  if echo "$out" | grep -q VIOLATION; then echo "CAUGHT $id by $prop: $(echo "$out" | sed 's/.*quick (\([0-9]*s\)).*/\1/')"; else echo "MISSED $id by $prop: $out"; fi
done
