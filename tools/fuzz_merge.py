#!/usr/bin/env python3
"""helper of tools/fuzz_campaign.sh: writes a replay file for a crash artefact,
or merges a campaign's counters into /verif/evidence/<prop>.json"""
import sys, json, re, hashlib, os
mode = sys.argv[1]
if mode == "replay":
    prop, target, crash, msg = sys.argv[2:6]
    data = open(crash, "rb").read()
    h = hashlib.sha1(data).hexdigest()[:16]
    d = os.environ.get("VERIF_REPLAY_DIR", "/verif/replays")
    os.makedirs(d, exist_ok=True)
    path = f"{d}/{prop}-fuzz-{h}.json"
    json.dump({"property": prop, "fuzz_target": target, "bytes": list(data), "message": msg}, open(path, "w"))
    print(path)
else:
    prop, target, log, secs = sys.argv[2:6]
    txt = open(log, errors="replace").read()
    def stat(name):
        vals = [int(x) for x in re.findall(rf"stat::{name}:\s+(\d+)", txt)]
        return sum(vals)
    execs = stat("number_of_executed_units")
    # fork mode prints "#N: cov: C ft: F corp: K exec/s E ..." lines
    cov = [int(x) for x in re.findall(r"cov: (\d+)", txt)]
    corp = [int(x) for x in re.findall(r"corp: (\d+)", txt)]
    runs = [int(x) for x in re.findall(r"^#(\d+):", txt, flags=re.M)]
    if runs:
        execs = max(execs, max(runs))
    if os.environ.get("VERIF_NO_EVIDENCE"):
        sys.exit(0)
    p = f"/verif/evidence/{prop}.json"
    ev = json.load(open(p))
    c = ev["coverage"]
    c["fuzz_campaign"] = {"engine": "libFuzzer via cargo-fuzz (ASan, -fork=16, fresh corpus)", "target": target,
                          "seconds": int(secs), "executed_units": execs,
                          "edges_covered": max(cov) if cov else None, "corpus_units": max(corp) if corp else None,
                          "oracle": "same decoder and oracle as the generated search; a violation panics inside the target"}
    c["evaluations"] = c.get("evaluations", 0) + execs
    json.dump(ev, open(p, "w"), indent=1)
