#!/usr/bin/env python3
"""Writes /verif/seeded/<id>/meta.json from the agent's own meta (agent_meta.json)
plus what I ran myself; prints the markdown table used in DESIGN.md section 7.5."""
import json, os
VERIFY = ("scratch worktree /tmp/vw of /repo HEAD (removed afterwards), tools/verify_seed.sh <id>: "
          "demo installed -> passes on the unchanged tree; git apply patch.diff -> demo fails; "
          "cargo test --workspace --no-fail-fast --offline with the patch: 194 tests ok, only the known-bad "
          "asymmetric_diamond_projection_pattern fails (as on the unchanged tree)")
R = {
 "C01-tfc-fingerprint-before-assignment": ("C01", ["C01 quick: VIOLATION (28 s)"],
   "missed at first: C01 quick and C03 quick stayed green. The KF1 exclusion repaired the firewalls itself whenever a read set below the root had changed since the root last *ran*; it is now keyed on the root's last *visit*. The generator got the firewall-switch motif (twin firewalls + selector + chain) and focused histories (one root requested again and again)."),
 "C03-recompute-on-tfc-diff": ("C03", ["C03 quick: VIOLATION (56 s)", "C01 quick: OK (values stay correct, as the change intends)"], "caught as built"),
 "C08-session-batch-before-dirty-marks": ("C08", ["C08 quick: VIOLATION (129 s, image 8/9)"], "caught as built"),
 "C09-unpin-all-on-first-commit": ("C09", ["C09 quick: VIOLATION (34 s)"], "caught as built"),
 "C05-abort-callee-swap-remove": ("C05", ["C02 quick: VIOLATION (9 s)", "C04 quick: VIOLATION (11 s)", "C05 quick: VIOLATION (20 s)", "C01 quick: OK", "C03 quick: OK"],
   "missed at first by every check: no generated executor abandoned a read, and over-execution of a guarded dependency was invisible. Added Expr::Abandon (read dropped after k Pending) and Expr::Trap (partial executor that panics outside its guard) as a program motif; C05 runs half of its cases with every engine suspension point suspending once in all steps."),
 "C06-exit-scc-undo-not-defused": ("C06", ["C06 quick: VIOLATION (40 s)"],
   "missed at first: the stale cycle default was swallowed by the tolerance for known finding KF3. The tolerance now demands KF3's exact precondition (nothing the node observed changed, and the node behind a read cut short by the cycle signal reports the same value as the round before)."),
 "C07-keyofset-first-op-wins": ("C07", ["C07 quick: VIOLATION (48 s)", "C09 quick: VIOLATION (2 s)", "C10 quick: VIOLATION (3 s)"], "caught as built"),
 "C10-skip-empty-batch": ("C10", ["C10 quick: VIOLATION (26 s, process died with signal 6, case isolated by the supervisor)"],
   "missed at first: every generated batch carried the harness's marker row, and the effect is an abort of the whole process. Batches without a marker (hence without any write) are generated now and vcheck runs every check in a child process, re-running the cases in flight one by one when the child dies."),
 "C04-timestamp-read-before-phase-lock": ("C04", ["C04 quick: VIOLATION (45 s)", "C02 quick: OK"], "caught as built"),
 "C11-rocksdb-upper-bound-not-truncated": ("C11", ["C11 quick: VIOLATION (99 s, RocksDB)"],
   "missed at first: no two generated keys formed a carry pair (`.. x FF` next to `.. x+1 low`). A family of such byte keys was added to the key pool."),
 "C02-inmemory-keyofset-upsert-race": ("C02", ["C02 quick: VIOLATION (29 s, InMemoryKeyOfSetMap thread plans)", "C01 quick: OK"],
   "missed at first: the in-memory backend's key-of-set map was not among the structures stressed from OS threads. Added to C02 part 3 (first insertions into one not yet existing set from 2..16 threads released by a barrier)."),
 "C12-i128-zigzag-shift": ("C12", ["C12 quick: VIOLATION (i128 boundary values)"], "caught as built"),
 "C13-vecdeque-prefix-of-first-slice": ("C13", ["C13 quick: VIOLATION (equal values with different construction histories hash differently)", "C12 quick: OK"],
   "missed at first: every generated VecDeque was contiguous. The value universe now builds deques with a wrapped ring buffer (in `mk` and, with the opposite layout, in `mk_alt`)."),
 "C15-intern-stale-entry-overwrite": ("C15", ["C15 quick: VIOLATION (two live handles of equal values point to different allocations)"], "caught as built"),
 "C16-pinned-candidate-wrong-region": ("C16", ["C16 quick: VIOLATION (quiescent: 69 resident entries, capacity 33, nothing pinned)"],
   "missed at first: no generated stream wrote entries that are pinned from the start, which is how the cached maps use the cache. Added pinned writes, bursts of them (a write batch) and release-all; the quiescent phase now drives maintenance with scratch writes and waits long enough for the Poll strategy."),
 "C14-derive-combines-last-parameter-only": ("C14", ["C14 quick: VIOLATION (Gen<String,u8> and Gen<u8,u8> share one id)"], "caught as built"),
 "C01b-dirtied-set-cleared-after-propagation": ("C01", ["C01 quick: VIOLATION (38 s)", "C03 quick: VIOLATION (7 s)"], "caught as built (second, independent change for C01)"),
 "C09b-overlay-keeps-added-after-remove": ("C09", ["C09 quick: VIOLATION (39 s, set above the 1024 spill threshold)"], "caught as built (second, independent change for C09)"),
 "C03b-dirty-firewall-edge-means-recompute": ("C03", ["C03 quick: VIOLATION (44 s)", "C01 quick: OK (values stay correct)"], "caught as built (second, independent change for C03)"),
 "C06b-cycle-search-single-forward-pass": ("C06", ["C06 quick: VIOLATION (41 s, a request never completed: no task runnable)"], "caught as built (idle-runtime deadlock oracle; second change for C06)"),
 "C05b-computing-guard-not-released-while-panicking": ("C05", ["C05 quick: VIOLATION (38 s, a later request never completed)"], "caught as built (second change for C05)"),
 "C08b-pending-projection-marker-in-own-batch": ("C08", ["C08 quick: VIOLATION (71 s, image 25/38)"], "caught as built (second change for C08)"),
 "C02b-backward-edge-set-upgrade-under-read-lock": ("C02", ["C02 quick: VIOLATION (58 s, CompressedBackwardEdgeSet thread plans: 7 of 42 elements lost)"], "caught as built (second change for C02; it re-introduces the defect fixed by d82e202)"),
 "C04b-commit-releases-phase-lock-early": ("C04", ["C04 quick: VIOLATION (41 s)"], "caught as built (second change for C04)"),
 "C07b-timestamp-stored-only-on-real-change": ("C07", ["C07 quick: VIOLATION (49 s, stale value after a no-op session + restart)", "C08 quick: OK"], "caught as built (second change for C07)"),
 "C10b-single-serializer-skips-reorder-buffer": ("C10", ["C10 quick: VIOLATION (36 s, commit log order [1, 0, 2, ..])"], "caught as built (second change for C10)"),
 "C11b-fjall-buffer-inserts-before-removes": ("C11", ["C11 quick: VIOLATION (187 s, Fjall, serialization-buffer path)"], "caught as built (second change for C11)"),
 "C12b-derive-tuple-struct-skip-index": ("C12", ["C12 quick: VIOLATION (TupSkipMid does not round-trip)"],
   "missed at first: the universe had skipped fields only in named structs/variants. Tuple structs and tuple variants with a skipped field in front of / between encoded fields were added."),
 "C13b-hashmap-key-and-value-hashed-apart": ("C13", ["C13 quick: VIOLATION ({255: 255, 127: 0, 0: 0} and {0: 255, 127: 0, 255: 0} hash alike)"],
   "missed at first: the unequal partner of a value was a random neighbour (one tape byte changed), never a re-association of the value's own parts. `mk_neighbour` builds, from the same tape, the map with the values of two keys swapped."),
 "C15b-encode-session-keyed-by-hash-only": ("C15", ["C15 quick: VIOLATION (fresh interner: decode panicked: referenced interned value not found)"],
   "missed at first: no generated structure held handles of two types with equal hash streams and equal contents. `Interned<str>` now draws from the texts of the `Interned<String>` handles, and `Interned<u32>` / `Interned<Wrap(u32)>` were added to the structure."),
 "C16b-poll-trim-stops-at-pinned-tail": ("C16", ["C16 quick: VIOLATION (22 s, quiescent residency bound under Poll)"], "caught as built (second change for C16; relies on the pinned writes and the longer quiescent phase added for the first one)"),
 "C01c-unordered-group-skipped-when-edges-clean": ("C01", ["C01 quick: VIOLATION (46 s, projection handed a stale projection)", "C03 quick: VIOLATION (14 s)"], "caught as built (third change for C01)"),
 "C05c-publish-block-without-computation-guard": ("C05", ["C05 quick: VIOLATION (regression replay fixed-c05-guarded-publish-outlives-computation-guard.json fails again)"], "caught as built: the change takes back part of fix 4e17f51, whose regression replay is re-run by every C05 run"),
 "C09c-remove-after-write-in-same-batch-drops-entry": ("C09", ["C09 quick: VIOLATION (38 s)"], "caught as built (third change for C09)"),
 "C12c-vec-decode-length-clamped": ("C12", ["C12 quick: VIOLATION (Vec<u8> of length 65537 decoded with length 65536)"],
   "missed at first: generated sequences are short. 14 sequence/map/string types are now enumerated at the lengths where the length prefix changes its width and around 2^16 and 2^21, each followed by a sentinel."),
 "C06c-cyclic-signal-of-callee-repair-swallowed": ("C06", ["C06 quick: VIOLATION (regression replay fixed-c06-cycle-closed-by-edit.json fails again)"], "caught as built: the change takes back fix e5f3374, whose regression replay is re-run by every C06 run"),
 "C08c-external-input-registry-in-own-batch": ("C08", ["C08 quick: VIOLATION (65 s, image 3/4: external input not re-read by refresh after recovery)"],
   "missed at first: the recovered engine was edited and queried but never asked to refresh after the external world had moved. The continuation on every crash image now changes the world, refreshes, and queries every external input."),
 "C11c-rocksdb-member-key-length-one-byte": ("C11", ["C11 quick: VIOLATION (133 s, RocksDB, 4 KiB set key)"], "caught as built (third change for C11; the multi-kilobyte keys of the key pool)"),
 "C14b-combine-ignores-high-half-of-operand": ("C14", ["C14 quick: VIOLATION ([u8; 0] and [u8; 3] share one id)"], "caught as built (second change for C14)"),
 "C07c-pending-marker-shares-last-verified-key": ("C07", ["C07 quick: VIOLATION (79 s, firewall re-executed after a clean restart although nothing changed)"], "caught as built (third change for C07; by the justified-execution oracle carried across the restart)"),
 "C10c-shutdown-flag-disables-reorder-buffer": ("C10", ["C10 quick: VIOLATION (35 s, commit log not in creation order)"], "caught as built (third change for C10)"),
 "C13c-derive-enum-tag-declared-or-position": ("C13", ["C13 quick: VIOLATION (EnDisc: Low and Mid feed the same byte stream)"],
   "missed at first: no derived enum of the universe declared discriminants. Enums with partly declared discriminants (unit variants and data variants with a small payload domain) were added."),
 "C15c-vacuum-two-pass-removes-revived-entry": ("C15", ["C15 quick: VIOLATION (31 s, two live handles of equal values, different allocations)"], "caught as built (third change for C15)"),
 "C16c-unpin-drops-repinned-entry": ("C16", ["C16 quick: VIOLATION (40 s, quiescent: 46 resident entries, bound is capacity 8 + 1 + pinned 0 + slack 34)"], "caught as built (third change for C16; Notify strategy, entry pinned again before its Unpinned message is processed)"),
 "C16d-remove-closure-check-then-remove": ("C16", ["C16 quick: VIOLATION (28 s, op #377: key 35 is pinned but entry(35) found it vacant (evicted))", "C02 quick: OK"],
   "caught as built by C16 (fourth change for C16). The sub-agent was given C02's text: the split lock it causes in the query lock table is the lock-table clause of C16, and C16's multi-threaded cache and lock-table plans report the eviction of a pinned entry. C02's own check stays green: its engine-level part schedules all tasks on one thread, where check-then-remove cannot be interleaved, and its OS-thread part drives the containers of C02's anchors, not the cache (a multi-threaded engine stress with a tiny lock table is not built; see 7.2)."),
}
rows = []
for sid, (prop, ran, note) in R.items():
    d = f"/verif/seeded/{sid}"
    if not os.path.isdir(d):
        continue
    am = json.load(open(f"{d}/agent_meta.json"))
    meta = {
        "property": prop,
        "what_it_needs_to_manifest": am.get("needs_to_manifest") or am.get("what_it_needs_to_manifest"),
        "summary": am.get("summary"),
        "confirmed_by_me": VERIFY,
        "checks_run_against_it": ["tools/seed_eval.sh %s ... (git -C /repo apply; ./check <Cxx> quick with VERIF_SEED=0; git -C /repo checkout -- .)" % sid] + ran,
        "outcome": note,
    }
    json.dump(meta, open(f"{d}/meta.json", "w"), indent=1)
    rows.append(f"| `{sid}` | {prop} | {'; '.join(ran)} | {note} |")
print("| seeded change | property | checks run (quick, VERIF_SEED=0) | outcome |")
print("|---|---|---|---|")
print("\n".join(rows))
