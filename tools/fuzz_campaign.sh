#!/bin/bash
# tools/fuzz_campaign.sh <Cxx> <target> <seconds> <max_len>
# Coverage-guided campaign (libFuzzer through cargo-fuzz, ASan on, 16 forked
# workers, fresh corpus) over the same byte -> case decoder and the same oracle
# as the proptest search of that property. A crash artefact becomes a replay
# file and a VIOLATION line (exit 1); a build problem is exit 2; otherwise the
# campaign's counters are merged into the property's evidence file (exit 0).
set -u
prop="$1"; target="$2"; secs="$3"; maxlen="$4"
cd /verif/harness || exit 2
export CARGO_NET_OFFLINE=true
cp -f Cargo.lock fuzz/Cargo.lock 2>/dev/null
if ! cargo +nightly fuzz build --fuzz-dir fuzz --target-dir /verif/target/fuzz "$target" > /verif/target/build-fuzz-$target.log 2>&1; then
  echo "INCONCLUSIVE property=$prop fuzz target $target does not build (see /verif/target/build-fuzz-$target.log)"; exit 2
fi
run=/verif/target/fuzz-run/$target-$$
rm -rf "$run"; mkdir -p "$run/corpus" "$run/art"
seed=$(( ${VERIF_SEED:-0} + 1 ))
cargo +nightly fuzz run --fuzz-dir fuzz --target-dir /verif/target/fuzz "$target" "$run/corpus" -- \
  -fork=16 -max_total_time="$secs" -seed="$seed" -max_len="$maxlen" -len_control=0 \
  -print_final_stats=1 -artifact_prefix="$run/art/" > "$run/log" 2>&1
crash=$(ls "$run"/art/crash-* "$run"/art/oom-* "$run"/art/timeout-* 2>/dev/null | head -1)
if [ -n "$crash" ]; then
  msg=$(grep -a -m1 -i "violation" "$run/log" | cut -c1-300)
  [ -z "$msg" ] && msg=$(grep -a -m1 -E "panicked at|ERROR: " "$run/log" | cut -c1-300)
  path=$(python3 /verif/tools/fuzz_merge.py replay "$prop" "$target" "$crash" "$msg")
  echo "VIOLATION property=$prop replay=$path"
  echo "  fuzz target $target: $msg"
  rm -rf "$run"
  exit 1
fi
cp -f "$run/log" /verif/target/fuzz-last-$target.log
python3 /verif/tools/fuzz_merge.py evidence "$prop" "$target" "$run/log" "$secs"
rm -rf "$run"
exit 0
