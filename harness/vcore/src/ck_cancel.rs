//! Check C05: dropping a query future or an input-session call at any
//! suspension point, or an executor panic, never corrupts the engine.
//!
//! A case is a sequential history plus one fault. For `Cancel` faults the
//! targeted future is dropped after exactly `k` `Pending` returns while every
//! `yield_point` hook (placed next to awaits that can suspend) yields once, so
//! `k` ranges over the engine's suspension points; the machinery first measures
//! `S`, the number of suspension points of the targeted future, then
//! enumerates `k` (quick: up to 8 values per case, thorough: all `k < S`).

use std::{
    cell::Cell,
    collections::BTreeMap,
    future::Future,
    panic::AssertUnwindSafe,
    pin::Pin,
    rc::Rc,
    sync::Arc,
};

use futures::FutureExt as _;

use crate::{
    Report, Tier,
    backend::{Backend, BackendA, BackendB, CommitMode},
    ck_engine::decode_case,
    driver::{CaseResult, Evidence, drive_opts, env_seed, write_replay},
    hist::{Case, SessOp, Step},
    known,
    mockkv::Store,
    prog::{Kind, Val},
    queries::{In, InvStatus, Xt, user_query},
    sched::{CancelAfter, Chooser, HookMode, HookStats, SchedTape, install_controller},
    seq::{Runner, StepCtx},
    tape::Tape,
    util::{RunError, run_paused, take_panics},
};

#[derive(Debug, Clone, Copy, PartialEq, Eq)]
pub enum FaultKind {
    /// drop the query future of a `Query` step after k Pending returns
    CancelQuery,
    /// drop the future of one call of a `Session` step: op index, or
    /// `ops.len()` = commit(), or `usize::MAX` = input_session()
    CancelSessionCall(usize),
    /// the executor of this node panics at its next invocation
    Panic(u32),
}

#[derive(Debug, Clone)]
pub struct FaultCase {
    pub case: Case,
    pub use_b: bool,
    pub step: usize,
    pub kind: FaultKind,
    /// a sibling reader task queries this node concurrently with the target
    pub sibling: Option<u32>,
    pub tape: Vec<u8>,
}

pub fn decode(bytes: &[u8], tier: Tier) -> FaultCase {
    // first bytes: fault description; rest: an ordinary sequential case
    let mut t = Tape::new(bytes);
    let use_b = t.chance(170);
    let fk = t.byte();
    let which = t.byte();
    let sib = t.byte();
    let pos = t.u16();
    let sched: Vec<u8> = (0..24).map(|_| t.byte()).collect();
    let mut case = decode_case(t.rest(), tier, false, false);
    // no Release steps / restarts inside; a restart is appended by the runner
    case.steps.retain(|s| !matches!(s, Step::Restart | Step::Release(_)));
    let n = case.prog.nodes.len();
    let queries: Vec<usize> = case
        .steps
        .iter()
        .enumerate()
        .filter(|(_, s)| matches!(s, Step::Query(_)))
        .map(|(i, _)| i)
        .collect();
    let sessions: Vec<usize> = case
        .steps
        .iter()
        .enumerate()
        .skip(1)
        .filter(|(_, s)| matches!(s, Step::Session { .. }))
        .map(|(i, _)| i)
        .collect();
    let pick = |v: &Vec<usize>| v[(usize::from(pos) * v.len()) >> 16];
    let (step, kind) = match (usize::from(fk) * 10) >> 8 {
        0..=4 if !queries.is_empty() => (pick(&queries), FaultKind::CancelQuery),
        5..=7 if !sessions.is_empty() => {
            let s = pick(&sessions);
            let Step::Session { ops, .. } = &case.steps[s] else { unreachable!() };
            let choices = ops.len() + 2;
            let c = (usize::from(which) * choices) >> 8;
            let call = if c == ops.len() + 1 { usize::MAX } else { c };
            (s, FaultKind::CancelSessionCall(call))
        }
        _ if !queries.is_empty() => {
            let s = pick(&queries);
            // a non-leaf node below the queried root, if any
            let Step::Query(root) = &case.steps[s] else { unreachable!() };
            let cands: Vec<u32> = (0..=*root)
                .filter(|x| !case.prog.nodes[*x as usize].kind.is_leaf())
                .collect();
            if cands.is_empty() {
                (s, FaultKind::CancelQuery)
            } else {
                (s, FaultKind::Panic(cands[(usize::from(which) * cands.len()) >> 8]))
            }
        }
        _ => (0, FaultKind::CancelQuery),
    };
    let sibling = if sib < 90 {
        Some(case.prog.queryable(((usize::from(sib) * n) / 90) as u32))
    } else {
        None
    };
    FaultCase { case, use_b, step, kind, sibling, tape: sched }
}

#[derive(Debug, Default, Clone)]
pub struct FaultOutcome {
    pub violation: Option<String>,
    /// Pending returns of the targeted future (= suspension points passed)
    pub pendings: u64,
    pub cancelled: bool,
    /// the dropped future had entered engine state (hook tags reached)
    pub entered_engine: bool,
    pub panic_invoked: bool,
    pub user_saw_panic: bool,
    pub quiesce_timeouts: u64,
    /// the flagged executor was invoked although the request does not need it
    pub speculative_panic: bool,
}

enum ChildOut {
    Target(Option<Result<Val, ()>>),
    Sibling(Val),
}

fn foreign_panics(allow_join_errors: bool) -> Vec<String> {
    take_panics()
        .into_iter()
        .filter(|p| {
            if p.starts_with("<InjectedPanic>") {
                return false;
            }
            // cycle signal payload never occurs in these acyclic programs, so
            // it is not allow-listed
            if allow_join_errors
                && (p.contains("JoinError::Panic") || p.contains("InjectedPanic"))
            {
                // propagation of the injected panic through engine-spawned tasks
                return false;
            }
            true
        })
        .collect()
}

async fn run_fault<B: Backend>(
    backend: B,
    fc: &FaultCase,
    k: Option<u64>,
) -> FaultOutcome {
    let mut out = FaultOutcome::default();
    let prog = Arc::new(fc.case.prog.clone());
    let mut r = Runner::new(backend, prog.clone(), 0);
    r.check_c03 = false;
    r.allow_unwound = matches!(fc.kind, FaultKind::Panic(_));
    let tape = SchedTape::new(fc.tape.clone());
    // In half of the cases every suspension point of the engine suspends once
    // in all steps, not only under the faulted request: reads that an executor
    // abandons half way (`Expr::Abandon`) are then really cut short, and the
    // steps around the fault run under a non-trivial poll order as well.
    let bg = if fc.case.knobs[3] & 1 == 1 { HookMode::CancelPoints } else { HookMode::Off };
    let mode = Rc::new(Cell::new(bg));
    let stats = Rc::new(HookStats::default());
    let _guard = install_controller(tape.clone(), mode.clone(), stats.clone());
    let _ = take_panics();
    r.open().await;
    let mut injected = false;
    for (i, st) in fc.case.steps.iter().enumerate() {
        if i != fc.step {
            r.step(st).await;
        } else {
            match (st, fc.kind) {
                (Step::Query(n), FaultKind::CancelQuery | FaultKind::Panic(_)) => {
                    // known finding KF1 is excluded by construction for every
                    // root requested in this step, the sibling included
                    let mut roots = vec![*n];
                    roots.extend(fc.sibling);
                    r.defuse(&roots).await;
                    if let FaultKind::Panic(node) = fc.kind {
                        // the flagged executor panics on every invocation
                        // made under the faulted request
                        r.sh.panic_nodes.lock().insert(node, u32::MAX);
                        injected = true;
                    }
                    let _ = r.tracked().await;
                    let te = r.tracked.as_ref().unwrap();
                    let engine = r.engine.as_ref().unwrap().clone();
                    let pendings = Rc::new(Cell::new(0u64));
                    let reached_before: u64 = stats.total.get();
                    let target: Pin<Box<dyn Future<Output = Result<Val, ()>>>> = {
                        let prog = prog.clone();
                        let n = *n;
                        Box::pin(async move {
                            AssertUnwindSafe(user_query(&prog, te, n))
                                .catch_unwind()
                                .await
                                .map_err(|_| ())
                        })
                    };
                    let kk = if fc.kind == FaultKind::CancelQuery { k } else { None };
                    let cancel = CancelAfter::new(target, kk, pendings.clone());
                    let mut children: Vec<Pin<Box<dyn Future<Output = ChildOut>>>> =
                        vec![Box::pin(async move { ChildOut::Target(cancel.await) })];
                    if let Some(sn) = fc.sibling {
                        let prog = prog.clone();
                        children.push(Box::pin(async move {
                            let te2 = engine.tracked().await;
                            ChildOut::Sibling(user_query(&prog, &te2, sn).await)
                        }));
                    }
                    mode.set(if fc.kind == FaultKind::CancelQuery {
                        HookMode::CancelPoints
                    } else {
                        bg
                    });
                    // a panicking sibling (it may hit the flagged executor too)
                    // is handled like the target
                    let res = AssertUnwindSafe(Chooser::new(children, tape.clone()))
                        .catch_unwind()
                        .await;
                    mode.set(bg);
                    out.pendings = pendings.get();
                    out.entered_engine = stats.total.get() > reached_before + 2;
                    let expect = r.eval(*n);
                    match res {
                        Err(_) => {
                            // the sibling panicked outside catch_unwind
                            out.user_saw_panic = true;
                        }
                        Ok((outs, _, _)) => {
                            for o in outs {
                                match o {
                                    ChildOut::Target(None) => out.cancelled = true,
                                    ChildOut::Target(Some(Err(()))) => {
                                        out.user_saw_panic = true;
                                    }
                                    ChildOut::Target(Some(Ok(v))) => {
                                        if v != expect && out.violation.is_none() {
                                            out.violation = Some(format!(
                                                "faulted step {i}: query returned {v:?}, from-scratch value is {expect:?}"
                                            ));
                                        }
                                    }
                                    ChildOut::Sibling(v) => {
                                        let e = r.eval(fc.sibling.unwrap());
                                        if v != e && out.violation.is_none() {
                                            out.violation = Some(format!(
                                                "faulted step {i}: sibling query returned {v:?}, from-scratch value is {e:?}"
                                            ));
                                        }
                                    }
                                }
                            }
                        }
                    }
                    if let FaultKind::Panic(node) = fc.kind {
                        out.panic_invoked = r.sh.log.lock().iter().any(|inv| {
                            inv.node == node && inv.status == InvStatus::Unwound
                        });
                        r.sh.panic_nodes.lock().clear();
                        // The engine may invoke the flagged executor
                        // speculatively (while re-verifying a dependency the
                        // recomputed caller no longer has) and then swallow
                        // the panic; but when the from-scratch evaluation of
                        // the request needs that node, no value can exist
                        // without a successful run of it.
                        let needed = r.reaches(*n, node)
                            || fc.sibling.is_some_and(|sn| r.reaches(sn, node));
                        if out.panic_invoked && !out.user_saw_panic && needed && out.violation.is_none() {
                            out.violation = Some(format!(
                                "faulted step {i}: the executor of node {node} panicked under this request and the request needs it, but the caller received a value"
                            ));
                        }
                        if out.panic_invoked && !needed {
                            out.speculative_panic = true;
                        }
                        if !out.panic_invoked && out.user_saw_panic && out.violation.is_none() {
                            out.violation = Some(format!(
                                "faulted step {i}: the request panicked although the flagged executor was never invoked"
                            ));
                        }
                    }
                    // the tracked engine may hold a half-finished local state
                    r.tracked = None;
                    r.judge_log = true;
                    // External inputs whose executor completed under the
                    // faulted request for the first time: the engine may have
                    // published that result or dropped it with the request
                    // (then the next demand reads the world again). Both are
                    // allowed; the two agree as long as the world has not
                    // moved, so the demand is made right away, which pins the
                    // frozen value in the model and in the engine alike.
                    let unsettled: Vec<u32> = {
                        let log = r.sh.log.lock();
                        log[r.log_pos()..]
                            .iter()
                            .filter(|inv| {
                                prog.nodes[inv.node as usize].kind == Kind::Xt
                                    && !r.model.xt_frozen.contains_key(&inv.node)
                            })
                            .map(|inv| inv.node)
                            .collect()
                    };
                    let completed_here: Vec<u32> = {
                        let log = r.sh.log.lock();
                        log[r.log_pos()..]
                            .iter()
                            .filter(|inv| inv.status == InvStatus::Completed)
                            .map(|inv| inv.node)
                            .collect()
                    };
                    r.process_log(StepCtx::Query);
                    if out.cancelled || out.user_saw_panic {
                        // their executors completed, but the request was cut
                        // short: published or not is the engine's choice
                        r.model.publish_uncertain.extend(completed_here);
                        for x in unsettled {
                            r.step_quiet_query(x).await;
                        }
                    }
                }
                (Step::Session { ops, by_drop }, FaultKind::CancelSessionCall(call)) => {
                    faulty_session(&mut r, ops, *by_drop, call, k, &mode, bg, &mut out).await;
                }
                _ => r.step(st).await,
            }
        }
        let fp = foreign_panics(injected);
        if let Some(p) = fp.first() {
            if out.violation.is_none() {
                out.violation = Some(format!("after step {i}: unexpected panic: {p}"));
            }
        }
        if out.violation.is_some() || !r.out.violations.is_empty() {
            break;
        }
    }
    if out.violation.is_none() && r.out.violations.is_empty() {
        // the engine must stay fully usable: every node, then an edit and a
        // re-query, and (persistent backend) a clean restart in between
        let n = prog.nodes.len() as u32;
        for y in (0..n).filter(|y| !prog.is_partial(*y)) {
            r.step(&Step::Query(y)).await;
        }
        if r.backend.persistent() {
            r.step(&Step::Restart).await;
            for y in (0..n).rev().filter(|y| !prog.is_partial(*y)) {
                r.step(&Step::Query(y)).await;
            }
        }
        let ins = prog.ids_of(|kd| kd == Kind::In);
        let ops: Vec<SessOp> = ins
            .iter()
            .take(2)
            .map(|i| SessOp::Update(*i, 1))
            .collect();
        r.step(&Step::Session { ops, by_drop: false }).await;
        for y in (0..n).filter(|y| !prog.is_partial(*y)) {
            r.step(&Step::Query(y)).await;
        }
        if let Some(p) = foreign_panics(false).first() {
            out.violation = Some(format!("after the fault: unexpected panic: {p}"));
        }
    }
    r.shutdown().await;
    out.quiesce_timeouts = r.out.quiesce_timeouts as u64;
    if out.violation.is_none() {
        if let Some(v) = r.out.violations.first() {
            out.violation = Some(format!("after the fault: {}: {}", v.prop, v.what));
        }
    }
    out
}

#[allow(clippy::too_many_arguments)]
async fn faulty_session<B: Backend>(
    r: &mut Runner<B>,
    ops: &[SessOp],
    by_drop: bool,
    call: usize,
    k: Option<u64>,
    mode: &Rc<Cell<HookMode>>,
    bg: HookMode,
    out: &mut FaultOutcome,
) {
    use std::sync::atomic::Ordering;
    r.tracked = None;
    let engine = r.engine.as_ref().unwrap().clone();
    let pendings = Rc::new(Cell::new(0u64));
    // inputs whose value is uncertain after a cancelled call: (old, new)
    let mut uncertain_in: BTreeMap<u32, (Option<Val>, Val)> = BTreeMap::new();
    let mut uncertain_xt = false;

    macro_rules! maybe_cancel {
        ($this:expr, $fut:expr) => {{
            if $this {
                mode.set(HookMode::CancelPoints);
                let res = CancelAfter::new(Box::pin($fut), k, pendings.clone()).await;
                mode.set(bg);
                out.pendings = pendings.get();
                if res.is_none() {
                    out.cancelled = true;
                }
                res
            } else {
                Some($fut.await)
            }
        }};
    }

    let Some(mut s) = maybe_cancel!(call == usize::MAX, engine.input_session()) else {
        // the session never came into being
        r.process_log(StepCtx::Query);
        return;
    };
    // stragglers of earlier queries ran against the old inputs (see
    // Runner::session)
    r.process_log(StepCtx::Query);
    r.model.epoch += 1;
    r.sh.epoch.store(r.model.epoch, Ordering::SeqCst);
    for (oi, op) in ops.iter().enumerate() {
        let this = call == oi;
        match op {
            SessOp::Set(n, _) | SessOp::SetSame(n) | SessOp::Update(n, _) => {
                let old = r.model.inputs.get(n).cloned();
                let new: Val = match op {
                    SessOp::Set(_, v) => Val::from(v.clone()),
                    SessOp::SetSame(_) => old.clone().unwrap_or_else(|| {
                        Val::from(r.prog.nodes[*n as usize].default.clone())
                    }),
                    SessOp::Update(_, d) => {
                        let mut v: Vec<i64> = old.as_ref().map_or_else(
                            || r.prog.nodes[*n as usize].default.clone(),
                            |c| c.to_vec(),
                        );
                        if let Some(x) = v.first_mut() {
                            *x = x.wrapping_add(*d);
                        }
                        Val::from(v)
                    }
                    SessOp::Refresh => unreachable!(),
                };
                let done = match op {
                    SessOp::Update(_, _) => {
                        let nv = new.clone();
                        maybe_cancel!(this, s.update(In(*n), move |_| nv)).is_some()
                    }
                    _ => maybe_cancel!(this, s.set_input(In(*n), new.clone())).is_some(),
                };
                if done {
                    if old.as_ref() != Some(&new) {
                        r.model.leaf_changed_epoch.insert(*n, r.model.epoch);
                    }
                    r.model.inputs.insert(*n, new);
                    uncertain_in.remove(n);
                } else {
                    uncertain_in.insert(*n, (old, new));
                }
            }
            SessOp::Refresh => {
                let done = maybe_cancel!(this, s.refresh::<Xt>()).is_some();
                if done {
                    let xs: Vec<u32> = r.model.xt_frozen.keys().copied().collect();
                    for x in xs {
                        let w = r.model.world.get(&x).cloned().unwrap();
                        if r.model.xt_frozen.get(&x) != Some(&w) {
                            r.model.leaf_changed_epoch.insert(x, r.model.epoch);
                        }
                        r.model.xt_frozen.insert(x, w);
                    }
                } else {
                    uncertain_xt = true;
                }
            }
        }
    }
    if by_drop {
        drop(s);
    } else if maybe_cancel!(call == ops.len(), s.commit()).is_none() {
        // guarded: completes in the background
    }
    // resolve what the cancelled call did: either nothing or everything
    if !uncertain_in.is_empty() || uncertain_xt {
        let te = engine.clone().tracked().await;
        for (n, (old, new)) in uncertain_in {
            let v = user_query(&r.prog, &te, n).await;
            if v == new {
                if old.as_ref() != Some(&new) {
                    r.model.leaf_changed_epoch.insert(n, r.model.epoch);
                }
                r.model.inputs.insert(n, new);
            } else if Some(&v) == old.as_ref() {
                // the call had no effect
            } else if out.violation.is_none() {
                out.violation = Some(format!(
                    "after a cancelled set_input/update In{n} reads {v:?}: neither the old value {old:?} nor the new one {new:?}"
                ));
            }
        }
        if uncertain_xt {
            let xs: Vec<u32> = r.model.xt_frozen.keys().copied().collect();
            for x in xs {
                let v = user_query(&r.prog, &te, x).await;
                let w = r.model.world.get(&x).cloned().unwrap();
                let old = r.model.xt_frozen.get(&x).cloned().unwrap();
                if v == w {
                    if old != w {
                        r.model.leaf_changed_epoch.insert(x, r.model.epoch);
                    }
                    r.model.xt_frozen.insert(x, w);
                } else if v != old && out.violation.is_none() {
                    out.violation = Some(format!(
                        "after a cancelled refresh Xt{x} reads {v:?}: neither the frozen value {old:?} nor the world {w:?}"
                    ));
                }
            }
        }
    }
    r.judge_log = false;
    r.process_log(StepCtx::SessionWithRefresh);
    r.judge_log = true;
}

fn exec(fc: &FaultCase, k: Option<u64>) -> Result<FaultOutcome, RunError> {
    let t0 = std::time::Instant::now();
    let r = exec_inner(fc, k);
    if std::env::var_os("VERIF_TRACE").is_some() && t0.elapsed().as_millis() > 500 {
        let _ = std::fs::write(
            format!("/tmp/c05-slow-{}.json", k.unwrap_or(9999)),
            to_doc(fc, k, "slow").to_string(),
        );
        eprintln!(
            "slow eval {:?} ms: step {} {:?} k={k:?} use_b={} knobs={:?} result={:?}",
            t0.elapsed().as_millis(), fc.step, fc.kind, fc.use_b, fc.case.knobs,
            r.as_ref().map(|o| (o.cancelled, o.pendings, o.quiesce_timeouts, o.violation.clone()))
        );
    }
    r
}

fn exec_inner(fc: &FaultCase, k: Option<u64>) -> Result<FaultOutcome, RunError> {
    let fc = fc.clone();
    if fc.use_b {
        let store = Arc::new(Store::new());
        let mut b = BackendB::from_knobs(store, fc.case.knobs);
        if b.mode == CommitMode::Manual {
            b.mode = CommitMode::StepDrain;
        }
        run_paused(async move { run_fault(b, &fc, k).await })
    } else {
        run_paused(async move { run_fault(BackendA, &fc, k).await })
    }
}

pub fn run_struct(fc: &FaultCase, tier: Tier, only_k: Option<u64>) -> CaseResult {
    let mut cr = CaseResult::default();
    let mut evals = 0u64;
    let judge = |cr: &mut CaseResult, k: Option<u64>, r: Result<FaultOutcome, RunError>| -> Option<FaultOutcome> {
        match r {
            Err(RunError::Deadlock) => {
                cr.violation = Some(format!("k={k:?}: a later request never completed (deadlock / lost wake-up)"));
                cr.signature = Some(format!("k={k:?}"));
                None
            }
            Err(RunError::Panic(p)) => {
                cr.violation = Some(format!("k={k:?}: panic escaped: {p}"));
                cr.signature = Some(format!("k={k:?}"));
                None
            }
            Ok(o) => {
                if let Some(v) = &o.violation {
                    cr.violation = Some(format!("k={k:?}: {v}"));
                    cr.signature = Some(format!("k={k:?}"));
                }
                cr.counters.push(("quiesce_timeouts", o.quiesce_timeouts));
                if o.speculative_panic {
                    cr.labels.push("panic_in_speculative_reverification");
                }
                Some(o)
            }
        }
    };
    if let Some(k) = only_k {
        let _ = judge(&mut cr, Some(k), exec(fc, Some(k)));
        cr.sub_evaluations = Some(1);
        return cr;
    }
    // measurement run (never cancels) = also the panic-fault run
    let base = judge(&mut cr, None, exec(fc, None));
    evals += 1;
    let Some(base) = base else {
        cr.sub_evaluations = Some(evals);
        return cr;
    };
    if matches!(fc.kind, FaultKind::Panic(_)) {
        if base.panic_invoked {
            cr.nontrivial = true;
            cr.sub_nontrivial.push(u64::MAX);
            cr.labels.push("executor_panic_reached_caller");
        }
    } else if cr.violation.is_none() {
        let s = base.pendings;
        let ks: Vec<u64> = if tier == Tier::Thorough || s <= 8 {
            (0..s).collect()
        } else {
            // 8 suspension points spread over 0..S, position from the case
            let off = u64::from(fc.tape.first().copied().unwrap_or(0)) % (s / 8).max(1);
            (0..8).map(|i| (i * s / 8 + off).min(s - 1)).collect()
        };
        for k in ks {
            let o = judge(&mut cr, Some(k), exec(fc, Some(k)));
            evals += 1;
            if let Some(o) = o {
                if o.cancelled && k > 0 && o.entered_engine {
                    cr.nontrivial = true;
                    cr.sub_nontrivial.push(k);
                }
            }
            if cr.violation.is_some() {
                break;
            }
        }
        cr.labels.push(match fc.kind {
            FaultKind::CancelQuery => "cancel_query",
            _ => "cancel_session_call",
        });
        cr.counters.push(("suspension_points_of_target", s));
    }
    if fc.use_b {
        cr.labels.push("config_B");
    }
    if fc.sibling.is_some() {
        cr.labels.push("sibling_task");
    }
    cr.sub_evaluations = Some(evals);
    if cr.nontrivial && cr.violation.is_none() {
        cr.sample = Some(format!(
            "fault: step {} {:?} sibling={:?} config={} cancelled at k in {:?}\n{}",
            fc.step,
            fc.kind,
            fc.sibling,
            if fc.use_b { "B" } else { "A" },
            cr.sub_nontrivial,
            fc.case.pretty()
        ));
    }
    cr
}

fn to_doc(fc: &FaultCase, k: Option<u64>, msg: &str) -> serde_json::Value {
    serde_json::json!({
        "property": "C05", "message": msg, "use_b": fc.use_b, "step": fc.step,
        "kind": match fc.kind {
            FaultKind::CancelQuery => serde_json::json!("cancel_query"),
            FaultKind::CancelSessionCall(c) => serde_json::json!({"cancel_session_call": if c == usize::MAX { -1 } else { c as i64 }}),
            FaultKind::Panic(n) => serde_json::json!({"panic": n}),
        },
        "sibling": fc.sibling, "tape": fc.tape, "k": k, "case": fc.case.to_json(),
    })
}

fn from_doc(d: &serde_json::Value) -> (FaultCase, Option<u64>) {
    let kind = if d["kind"].as_str() == Some("cancel_query") {
        FaultKind::CancelQuery
    } else if let Some(c) = d["kind"].get("cancel_session_call") {
        let c = c.as_i64().unwrap();
        FaultKind::CancelSessionCall(if c < 0 { usize::MAX } else { c as usize })
    } else {
        FaultKind::Panic(d["kind"]["panic"].as_u64().unwrap() as u32)
    };
    (
        FaultCase {
            case: Case::from_json(&d["case"]),
            use_b: d["use_b"].as_bool().unwrap_or(false),
            step: d["step"].as_u64().unwrap() as usize,
            kind,
            sibling: d["sibling"].as_u64().map(|x| x as u32),
            tape: d["tape"].as_array().map(|a| a.iter().map(|x| x.as_u64().unwrap() as u8).collect()).unwrap_or_default(),
        },
        d["k"].as_u64(),
    )
}

pub fn check(tier: Tier) -> Report {
    let prop = "C05";
    let seed = env_seed();
    let mut report = Report { property: prop.into(), ..Report::default() };
    let mut ev = Evidence::new(
        prop,
        tier.name(),
        seed,
        "fault_enumeration",
        "case = program x sequential history x one fault: (a) the future of a query / input_session() / set_input / update / refresh / commit is dropped after exactly k Pending returns while every verif_hooks yield point (placed next to awaits that can suspend: inside repair, firewall repair, backward projection, between unwiring and re-wiring edges, around publishing) yields once; a sibling reader task may run concurrently; first S (suspension points of the target) is measured, then k is enumerated (quick: <= 8 values spread over 0..S, thorough: all); (b) a chosen executor panics with a marker payload. Each (case,k) is one evaluation. Oracle afterwards: no panic other than the marker (thread-local panic hook), panic reaches the caller iff the flagged executor ran, idle-runtime deadlock oracle for every later step, from-scratch values for every node, then clean restart (DbBacked<MockKv>: shows whether persistence still works), re-query, an edit, re-query. non-trivial = the future was dropped after at least one Pending with engine hook points passed, or the flagged executor was invoked; distinct = (case bytes, k)",
    );
    ev.assumptions = vec![
        "preempt_point hooks never yield in cancellation mode: a future is only dropped where the real code can be suspended".into(),
        "a cancelled set_input/update/refresh may have had no effect or its full effect (guarded sections run to completion); the model accepts exactly these two outcomes".into(),
        "KF1 excluded by construction".into(),
    ];
    known::replay_regressions(prop, &mut report, &|doc| {
        let (fc, k) = from_doc(doc);
        run_struct(&fc, Tier::Quick, k)
    });
    let cases = if tier == Tier::Thorough { 10_000 } else { 1500 };
    let (stats, failure, _) = drive_opts(seed, cases, 900, &[], 60, 250, |bytes| {
        run_struct(&decode(bytes, tier), tier, None)
    });
    ev.stats.merge(stats);
    if let Some(f) = failure {
        let fc = decode(&f.bytes, tier);
        let k = f
            .signature
            .as_deref()
            .and_then(|s| s.strip_prefix("k=Some("))
            .and_then(|s| s.strip_suffix(')'))
            .and_then(|s| s.parse::<u64>().ok());
        let doc = to_doc(&fc, k, &f.message);
        let path = write_replay(
            prop,
            &doc,
            &format!("{}\nstep {} {:?} k={k:?} sibling={:?}\n{}", f.message, fc.step, fc.kind, fc.sibling, fc.case.pretty()),
        );
        report.violations.push((path.display().to_string(), f.message));
        ev.violations += 1;
    }
    ev.write();
    report
}

pub fn replay(path: &str) -> Report {
    let mut report = Report { property: "C05".into(), ..Report::default() };
    let doc: serde_json::Value =
        serde_json::from_str(&std::fs::read_to_string(path).expect("read")).expect("json");
    let (fc, k) = from_doc(&doc);
    println!("fault: step {} {:?} k={k:?}\n{}", fc.step, fc.kind, fc.case.pretty());
    if let Some(v) = run_struct(&fc, Tier::Quick, k).violation {
        report.violations.push((path.to_string(), v));
    }
    report
}
