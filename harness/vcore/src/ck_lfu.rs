//! Check C16: the admission cache never evicts pinned entries, serves the
//! latest value until eviction/removal, stays bounded; and the per-query lock
//! table built on it never splits a lock.

use std::{
    collections::{BTreeMap, BTreeSet},
    sync::{
        Arc,
        atomic::{AtomicBool, AtomicI32, Ordering},
    },
    time::{Duration, Instant},
};

use qbice_storage::tiny_lfu::{
    Entry, LifecycleListener, MaintenanceMode, TinyLFU, UnpinStrategy,
};

use crate::{
    Report, Tier,
    driver::{CaseResult, Evidence, SHARDS_OVERRIDE, drive, drive_opts, env_seed, write_replay},
    known,
    tape::Tape,
};

#[derive(Debug)]
pub struct CVal {
    pub ver: u32,
    pub pin: Arc<AtomicBool>,
}

#[derive(Debug, Default)]
pub struct PinListener;

impl LifecycleListener<u16, CVal> for PinListener {
    fn is_pinned(&self, _key: &u16, value: &CVal) -> bool {
        value.pin.load(Ordering::SeqCst)
    }
}

#[derive(Debug, Clone, Copy, PartialEq, Eq)]
pub enum LOp {
    Get(u16),
    InsertIfVacant(u16),
    Upsert(u16),
    Remove(u16),
    Pin(u16),
    Unpin(u16),
    Touch(u16, u8),
    /// write an entry that is pinned from the start (what the cached maps do
    /// for every write of a batch that is not durable yet)
    UpsertPinned(u16),
    /// the batch became durable: every pinned key is released
    UnpinAll,
}

/// for the fuzz target: maintenance inline (deterministic)
pub const PIGGYBACK: MaintenanceMode = MaintenanceMode::Piggyback;

#[derive(Debug, Clone)]
pub struct LPlan {
    pub capacity: usize,
    pub strategy: UnpinStrategy,
    pub mode: MaintenanceMode,
    pub universe: usize,
    pub ops: Vec<LOp>,
}

impl LPlan {
    pub fn decode(t: &mut Tape<'_>, tier: Tier) -> Self {
        let capacity = [1usize, 2, 3, 8, 33, 100, 300][t.idx(7)];
        let strategy = if t.chance(128) { UnpinStrategy::Notify } else { UnpinStrategy::Poll };
        let mode = if t.chance(60) { MaintenanceMode::DedicatedThread } else { MaintenanceMode::Piggyback };
        let universe = (capacity * (4 + t.idx(16))).clamp(8, 4000);
        let n = 50 + t.idx(if tier == Tier::Thorough { 2950 } else { 900 });
        let hot = 1 + universe / 8;
        let mut ops = Vec::with_capacity(n);
        for _ in 0..n {
            // skewed popularity: half of the accesses go to the hot eighth
            let k = if t.chance(128) { t.idx(hot) } else { t.idx(universe) } as u16;
            // a write batch: a run of fresh keys written pinned, released
            // together later
            if t.chance(5) {
                let len = 20 + t.idx(90);
                let start = t.idx(universe);
                for j in 0..len {
                    ops.push(LOp::UpsertPinned(((start + j) % universe) as u16));
                }
                continue;
            }
            ops.push(match t.weighted(&[70, 60, 40, 14, 26, 22, 24, 18, 8]) {
                7 => LOp::UpsertPinned(k),
                8 => LOp::UnpinAll,
                0 => LOp::Get(k),
                1 => LOp::InsertIfVacant(k),
                2 => LOp::Upsert(k),
                3 => LOp::Remove(k),
                4 => LOp::Pin(k),
                5 => LOp::Unpin(k),
                _ => LOp::Touch(k, 1 + t.idx(6) as u8),
            });
        }
        Self { capacity, strategy, mode, universe, ops }
    }
}

struct MEntry {
    ver: u32,
    pin: Arc<AtomicBool>,
}

pub fn run_plan(plan: &LPlan) -> CaseResult {
    let mut cr = CaseResult::default();
    let mut plan = plan.clone();
    if std::env::var_os("VERIF_LFU_PIGGYBACK").is_some() {
        plan.mode = MaintenanceMode::Piggyback;
    }
    let plan = &plan;
    let cache: TinyLFU<u16, CVal, PinListener> =
        TinyLFU::new(plan.capacity, plan.strategy, plan.mode);
    // model: key -> latest value as far as the harness wrote it (the entry may
    // have been evicted since unless pinned)
    let mut model: BTreeMap<u16, MEntry> = BTreeMap::new();
    let mut next_ver = 1u32;
    let mut max_pinned = 0usize;
    let mut pinned_survived_pressure = false;
    let mut inserts_since_pin_touch: BTreeMap<u16, usize> = BTreeMap::new();
    let dedicated = plan.mode == MaintenanceMode::DedicatedThread;
    let resident = |cache: &TinyLFU<u16, CVal, PinListener>| -> usize {
        (0..plan.universe as u16)
            .filter(|k| cache.entry(*k, |e| matches!(e, Entry::Occupied(_))))
            .count()
    };
    let pinned_now = |model: &BTreeMap<u16, MEntry>| -> usize {
        model.values().filter(|m| m.pin.load(Ordering::SeqCst)).count()
    };
    let slack = 34usize;
    for (step, op) in plan.ops.iter().enumerate() {
        let check_get = |k: u16, got: Option<u32>, model: &BTreeMap<u16, MEntry>| -> Option<String> {
            match (got, model.get(&k)) {
                (Some(v), Some(m)) if v == m.ver => None,
                (Some(v), Some(m)) => Some(format!(
                    "op #{step}: get({k}) returned version {v}, the latest written is {}",
                    m.ver
                )),
                (Some(v), None) => Some(format!(
                    "op #{step}: get({k}) returned version {v} although the key was removed / never inserted"
                )),
                (None, Some(m)) if m.pin.load(Ordering::SeqCst) => Some(format!(
                    "op #{step}: key {k} is pinned (its owner reports it as pinned) but it is no longer in the cache"
                )),
                (None, _) => None,
            }
        };
        match *op {
            LOp::Get(k) => {
                let got = cache.get_map(&k, |v| v.ver);
                if got.is_none() {
                    // evicted: forget it (it is legal, it was not pinned)
                    if let Some(e) = check_get(k, got, &model) {
                        cr.violation = Some(e);
                        break;
                    }
                    model.remove(&k);
                } else if let Some(e) = check_get(k, got, &model) {
                    cr.violation = Some(e);
                    break;
                }
            }
            LOp::Touch(k, n) => {
                for _ in 0..n {
                    let got = cache.get_map(&k, |v| v.ver);
                    if let Some(e) = check_get(k, got, &model) {
                        cr.violation = Some(e);
                        break;
                    }
                    if got.is_none() {
                        model.remove(&k);
                    }
                }
                if cr.violation.is_some() {
                    break;
                }
            }
            LOp::UnpinAll => {
                for (k, m) in &model {
                    if m.pin.swap(false, Ordering::SeqCst) && plan.strategy == UnpinStrategy::Notify {
                        cache.unpin(*k);
                    }
                }
                inserts_since_pin_touch.clear();
            }
            LOp::InsertIfVacant(k) | LOp::Upsert(k) | LOp::UpsertPinned(k) => {
                let upsert = !matches!(op, LOp::InsertIfVacant(_));
                let pinned_write = matches!(op, LOp::UpsertPinned(_));
                let ver = next_ver;
                next_ver += 1;
                let prior_pin = model.get(&k).map(|m| m.pin.clone());
                let was_pinned = prior_pin.as_ref().is_some_and(|p| p.load(Ordering::SeqCst));
                let pin = prior_pin.clone().unwrap_or_else(|| Arc::new(AtomicBool::new(false)));
                // returns (was_occupied, version now stored, pin flag of the
                // resident entry)
                let (occupied, stored, flag) = cache.entry(k, |e| match e {
                    Entry::Vacant(v) => {
                        if pinned_write {
                            pin.store(true, Ordering::SeqCst);
                        }
                        v.insert(CVal { ver, pin: pin.clone() });
                        (false, ver, pin.clone())
                    }
                    Entry::Occupied(mut o) => {
                        if pinned_write {
                            o.get().pin.store(true, Ordering::SeqCst);
                        }
                        if upsert {
                            o.get_mut().ver = ver;
                        }
                        (true, o.get().ver, o.get().pin.clone())
                    }
                });
                if pinned_write {
                    inserts_since_pin_touch.insert(k, 0);
                }
                if occupied {
                    // the resident entry must be the one the model knows
                    match model.get(&k) {
                        Some(m) if upsert || m.ver == stored => {}
                        Some(m) => {
                            cr.violation = Some(format!(
                                "op #{step}: entry({k}) is occupied with version {stored}, the latest written is {}",
                                m.ver
                            ));
                            break;
                        }
                        None => {
                            cr.violation = Some(format!(
                                "op #{step}: entry({k}) is occupied (version {stored}) although the key was removed / observed evicted"
                            ));
                            break;
                        }
                    }
                    model.insert(k, MEntry { ver: stored, pin: flag });
                } else {
                    if was_pinned {
                        cr.violation = Some(format!(
                            "op #{step}: key {k} is pinned but entry({k}) found it vacant (evicted)"
                        ));
                        break;
                    }
                    model.insert(k, MEntry { ver, pin: flag });
                    for v in inserts_since_pin_touch.values_mut() {
                        *v += 1;
                    }
                }
            }
            LOp::Remove(k) => {
                let removed = cache.entry(k, |e| match e {
                    Entry::Occupied(o) => Some(o.remove().ver),
                    Entry::Vacant(_) => None,
                });
                if let (None, Some(m)) = (&removed, model.get(&k)) {
                    if m.pin.load(Ordering::SeqCst) {
                        cr.violation = Some(format!(
                            "op #{step}: remove({k}): the pinned key is not in the cache any more"
                        ));
                        break;
                    }
                }
                if let Some(m) = model.remove(&k) {
                    m.pin.store(false, Ordering::SeqCst);
                }
                inserts_since_pin_touch.remove(&k);
            }
            LOp::Pin(k) => {
                // pin only what is resident (the owner pins while it holds the
                // entry); pinning makes it unevictable from now on
                let ok = cache.entry(k, |e| match e {
                    Entry::Occupied(o) => {
                        o.get().pin.store(true, Ordering::SeqCst);
                        Some(o.get().ver)
                    }
                    Entry::Vacant(_) => None,
                });
                match (ok, model.get(&k)) {
                    (Some(v), Some(m)) if v == m.ver => {
                        inserts_since_pin_touch.insert(k, 0);
                    }
                    (Some(v), other) => {
                        cr.violation = Some(format!(
                            "op #{step}: pin({k}): resident version {v}, model {:?}",
                            other.map(|m| m.ver)
                        ));
                        break;
                    }
                    (None, Some(m)) if m.pin.load(Ordering::SeqCst) => {
                        cr.violation = Some(format!("op #{step}: pinned key {k} vanished"));
                        break;
                    }
                    (None, _) => {
                        model.remove(&k);
                    }
                }
            }
            LOp::Unpin(k) => {
                if let Some(m) = model.get(&k) {
                    if m.pin.swap(false, Ordering::SeqCst) && plan.strategy == UnpinStrategy::Notify {
                        cache.unpin(k);
                    }
                }
                inserts_since_pin_touch.remove(&k);
            }
        }
        let pn = pinned_now(&model);
        max_pinned = max_pinned.max(pn);
        if inserts_since_pin_touch.values().any(|n| *n >= plan.capacity + slack) {
            pinned_survived_pressure = true;
        }
        // loose bound at every step (only meaningful without a maintenance
        // thread that may lag behind)
        // Under `Poll` a released pin is only noticed when a maintenance pass
        // reaches the entry, and a pass stops at the first entry that is still
        // pinned, so between passes the residents are not bounded by the pins
        // of any single moment; that strategy is judged at the quiescent
        // point only.
        if !dedicated && plan.strategy == UnpinStrategy::Notify && step % 16 == 0 {
            let r = resident(&cache);
            let bound = plan.capacity + 1 + max_pinned + 2 * slack;
            if r > bound {
                cr.violation = Some(format!(
                    "op #{step}: {r} resident entries, bound is capacity {} + 1 + max pinned {} + maintenance slack {}",
                    plan.capacity,
                    max_pinned,
                    2 * slack
                ));
                break;
            }
        }
    }
    if cr.violation.is_none() {
        // every pinned key is still there with its latest value
        for (k, m) in &model {
            if m.pin.load(Ordering::SeqCst) {
                let got = cache.get_map(k, |v| v.ver);
                if got != Some(m.ver) {
                    cr.violation = Some(format!(
                        "end: pinned key {k} reads {got:?}, latest written version is {}",
                        m.ver
                    ));
                    break;
                }
            }
        }
    }
    if cr.violation.is_none() {
        // quiescent bound: drive maintenance with reads of an absent key
        let pn = pinned_now(&model);
        let scratch = u16::MAX;
        let mut last = usize::MAX;
        let mut stable = 0;
        let start = Instant::now();
        for _round in 0..(pn + 3).max(4) * 8 {
            for i in 0..40u16 {
                let _ = cache.get_map(&scratch, |v| v.ver);
                // misses leave no trace in the buffers: writes of scratch keys
                // (outside the counted universe) make the maintenance pass run,
                // which is also what polls released pins under `Poll`
                let sk = u16::MAX - 1 - (i % 4);
                cache.entry(sk, |e| {
                    if let Entry::Vacant(v) = e {
                        v.insert(CVal { ver: 0, pin: Arc::new(AtomicBool::new(false)) });
                    }
                });
                cache.entry(sk, |e| {
                    if let Entry::Occupied(o) = e {
                        let _ = o.remove();
                    }
                });
            }
            if dedicated {
                std::thread::sleep(Duration::from_micros(300));
            }
            let r = resident(&cache);
            if r == last {
                stable += 1;
            } else {
                stable = 0;
            }
            last = r;
            // under `Poll` one maintenance pass stops at the first entry of
            // the pinned region that is still pinned: with pn pinned entries
            // progress may pause for pn passes in a row
            if stable >= pn + 2 || start.elapsed() > Duration::from_secs(4) {
                break;
            }
        }
        let q_slack: usize = std::env::var("VERIF_LFU_QSLACK").ok().and_then(|s| s.parse().ok()).unwrap_or(slack);
        let bound = plan.capacity + 1 + pn + q_slack;
        // with a dedicated maintenance thread the moment at which the policy
        // has caught up is not observable: the bound is only judged in
        // piggyback mode, where maintenance runs inline and deterministically
        if std::env::var_os("VERIF_LFU_EXCESS").is_some() && !dedicated && stable >= pn + 2 {
            eprintln!("EXCESS cap={} pn={} strategy={:?} excess={}", plan.capacity, pn, plan.strategy, last as i64 - plan.capacity as i64 - pn as i64);
        }
        if dedicated {
            cr.counters.push(("bound_not_judged_dedicated_thread", 1));
        } else if stable >= pn + 2 && last > bound {
            cr.violation = Some(format!(
                "quiescent: {last} resident entries, bound is capacity {} + 1 + pinned {} + slack {}",
                plan.capacity, pn, slack
            ));
        }
        if stable < pn + 2 {
            cr.counters.push(("quiescent_bound_not_settled", 1));
        }
    }
    cr.nontrivial = pinned_survived_pressure;
    cr.labels.push(match plan.strategy {
        UnpinStrategy::Notify => "unpin_notify",
        UnpinStrategy::Poll => "unpin_poll",
    });
    cr.labels.push(if dedicated { "maintenance_thread" } else { "maintenance_piggyback" });
    cr.counters.push(("ops", plan.ops.len() as u64));
    cr.counters.push(("max_pinned", max_pinned as u64));
    if cr.nontrivial {
        cr.sample = Some(format!(
            "capacity={} {:?} {:?} universe={} ops={} first: {:?}",
            plan.capacity,
            plan.strategy,
            plan.mode,
            plan.universe,
            plan.ops.len(),
            &plan.ops[..plan.ops.len().min(12)]
        ));
    }
    cr
}

// ---------------------------------------------------------------------------
// lock table (H2 wrapper)
// ---------------------------------------------------------------------------

#[cfg(feature = "hooks")]
pub fn lock_run(bytes: &[u8]) -> CaseResult {
    use qbice::{engine::verif::VerifQueryLockManager, query::QueryID};
    use qbice_stable_hash::Compact128;
    let mut cr = CaseResult::default();
    let mut t = Tape::new(bytes);
    let capacity = 1 + t.idx(8) as u64;
    let ids = 2 + t.idx(63);
    let tasks = 2 + t.idx(15);
    let per_task = 10 + t.idx(60);
    let plans: Vec<Vec<(usize, bool)>> = (0..tasks)
        .map(|_| (0..per_task).map(|_| (t.idx(ids), t.chance(100))).collect())
        .collect();
    let table = Arc::new(VerifQueryLockManager::new(capacity));
    let witness: Arc<Vec<(AtomicI32, AtomicI32)>> =
        Arc::new((0..ids).map(|_| (AtomicI32::new(0), AtomicI32::new(0))).collect());
    let bad = Arc::new(parking_lot::Mutex::new(None::<String>));
    let rt = tokio::runtime::Builder::new_multi_thread().worker_threads(8).enable_time().build().unwrap();
    let finished = rt.block_on(async {
        let mut hs = Vec::new();
        for plan in plans {
            let table = table.clone();
            let witness = witness.clone();
            let bad = bad.clone();
            hs.push(tokio::spawn(async move {
                for (id, exclusive) in plan {
                    let q = QueryID::from_parts(Compact128::from(1u128), Compact128::from(id as u128));
                    if exclusive {
                        let g = table.acquire_exclusive(&q).await;
                        let w = witness[id].0.fetch_add(1, Ordering::SeqCst);
                        let r = witness[id].1.load(Ordering::SeqCst);
                        if w != 0 || r != 0 {
                            *bad.lock() = Some(format!(
                                "exclusive lock of id {id} acquired while {w} other exclusive and {r} shared holders are inside: the lock was split in two"
                            ));
                        }
                        tokio::task::yield_now().await;
                        witness[id].0.fetch_sub(1, Ordering::SeqCst);
                        drop(g);
                    } else {
                        let g = table.acquire_shared(&q).await;
                        witness[id].1.fetch_add(1, Ordering::SeqCst);
                        let w = witness[id].0.load(Ordering::SeqCst);
                        if w != 0 {
                            *bad.lock() = Some(format!(
                                "shared lock of id {id} acquired while an exclusive holder is inside: the lock was split in two"
                            ));
                        }
                        tokio::task::yield_now().await;
                        witness[id].1.fetch_sub(1, Ordering::SeqCst);
                        drop(g);
                    }
                }
            }));
        }
        let all = async {
            for h in hs {
                let _ = h.await;
            }
        };
        tokio::time::timeout(Duration::from_secs(30), all).await.is_ok()
    });
    if !finished {
        cr.counters.push(("lock_run_watchdog_expired", 1));
    }
    cr.violation = bad.lock().clone();
    cr.nontrivial = ids as u64 > capacity + 1;
    cr.labels.push("lock_table");
    if cr.nontrivial {
        cr.sample = Some(format!("lock table capacity {capacity}, {ids} ids, {tasks} tasks x {per_task} acquisitions"));
    }
    cr
}

pub fn check(tier: Tier) -> Report {
    let prop = "C16";
    let seed = env_seed();
    let mut report = Report { property: prop.into(), ..Report::default() };
    let mut ev = Evidence::new(
        prop,
        tier.name(),
        seed,
        "exploration",
        "case = op stream (50..950, thorough 3000 ops) on TinyLFU<u16, value, listener> for capacity in {1,2,3,8,33,100,300}, both unpin strategies, both maintenance modes, key universe 4x..20x capacity with skewed popularity: get / insert-if-vacant / upsert / remove / pin (flag the listener reads) / unpin (flag cleared, Notify: unpin()) / touch x n; reference map key -> latest version + pin flags. Oracle: get returns the latest version or None, None only for unpinned keys, never a version after remove; a pinned key is always present with its latest value; resident entries (counted through the public entry API over the universe) <= capacity + 1 + max pinned + 68 at every 16th step and <= capacity + 1 + pinned now + 34 at quiescent points (slack = MAINTENANCE_BATCH_SIZE buffered writes + probation floor + scratch key). Plus lock-table runs: VerifQueryLockManager(capacity 1..8), 2..16 tasks on an 8-worker runtime taking shared/exclusive locks on 2..64 ids with witness counters inside the critical section. non-trivial = a pinned key saw at least capacity+34 foreign inserts while pinned (it was an eviction candidate and survived); lock runs with more ids than capacity+1; distinct = distinct case bytes",
    );
    ev.assumptions = vec![
        "the bound constants (34 / 68) are derived from MAINTENANCE_BATCH_SIZE = 32 in tiny_lfu.rs; a change of that constant shows as a bound violation by design".into(),
        "with a dedicated maintenance thread the size bound is not judged (the moment the policy has caught up is not observable); pin/latest-value rules are judged in both modes".into(),
    ];
    known::replay_regressions(prop, &mut report, &|doc| {
        let bytes: Vec<u8> = doc["bytes"].as_array().map(|a| a.iter().map(|x| x.as_u64().unwrap() as u8).collect()).unwrap_or_default();
        let tier = if doc["tier"].as_str() == Some("thorough") { Tier::Thorough } else { Tier::Quick };
        run_plan(&LPlan::decode(&mut Tape::new(&bytes), tier))
    });
    let cases = if tier == Tier::Thorough { 400_000 } else { 50_000 };
    let (stats, failure, _) = drive(seed, cases, 3000, &[], |b| {
        run_plan(&LPlan::decode(&mut Tape::new(b), tier))
    });
    ev.stats.merge(stats);
    if let Some(f) = failure {
        let plan = LPlan::decode(&mut Tape::new(&f.bytes), tier);
        let doc = serde_json::json!({"property": prop, "part": "stream", "tier": tier.name(), "bytes": f.bytes, "message": f.message});
        let path = write_replay(prop, &doc, &format!("{}\ncapacity={} {:?} {:?} universe={}\n{:?}", f.message, plan.capacity, plan.strategy, plan.mode, plan.universe, plan.ops));
        report.violations.push((path.display().to_string(), f.message));
        ev.violations += 1;
    }
    #[cfg(feature = "hooks")]
    {
        let runs = if tier == Tier::Thorough { 2000 } else { 300 };
        SHARDS_OVERRIDE.with(|s| s.set(Some(2)));
        let (stats, failure, _) = drive_opts(seed ^ 0x10c, runs, 64, &[], 30, 60, lock_run);
        SHARDS_OVERRIDE.with(|s| s.set(None));
        if stats.counters.get("lock_run_watchdog_expired").copied().unwrap_or(0) > 0 {
            report.inconclusive.push("a lock-table run did not finish within its watchdog (30 s)".into());
        }
        ev.stats.merge(stats);
        if let Some(f) = failure {
            let doc = serde_json::json!({"property": prop, "part": "lock_table", "bytes": f.bytes, "message": f.message});
            let path = write_replay(prop, &doc, &f.message);
            report.violations.push((path.display().to_string(), f.message));
            ev.violations += 1;
        }
    }
    ev.write();
    report
}

pub fn replay(path: &str) -> Report {
    let mut report = Report { property: "C16".into(), ..Report::default() };
    let doc: serde_json::Value =
        serde_json::from_str(&std::fs::read_to_string(path).expect("read")).expect("json");
    let bytes: Vec<u8> = doc["bytes"].as_array().map(|a| a.iter().map(|x| x.as_u64().unwrap() as u8).collect()).unwrap_or_default();
    let tier = if doc["tier"].as_str() == Some("thorough") { Tier::Thorough } else { Tier::Quick };
    let cr = if doc["part"].as_str() == Some("lock_table") {
        #[cfg(feature = "hooks")]
        {
            lock_run(&bytes)
        }
        #[cfg(not(feature = "hooks"))]
        {
            CaseResult::default()
        }
    } else {
        let plan = LPlan::decode(&mut Tape::new(&bytes), tier);
        println!("capacity={} {:?} {:?} universe={}\n{:?}", plan.capacity, plan.strategy, plan.mode, plan.universe, plan.ops);
        run_plan(&plan)
    };
    if let Some(v) = cr.violation {
        report.violations.push((path.to_string(), v));
    }
    report
}

#[allow(dead_code)]
fn _unused(_: BTreeSet<u8>) {}
