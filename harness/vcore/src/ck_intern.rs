//! Check C15: interning is canonical under concurrency and survives encoding.
//!
//! (a) generated OS-thread plans over a small value domain with a global
//!     witness table (sound under any interleaving): a thread registers a
//!     handle after obtaining it and unregisters it before dropping it, so
//!     registered is a subset of alive; two registered handles of equal values
//!     (one type) with different pointers are a violation;
//! (b) deterministic placements: thread A is parked at the H3 sync point
//!     between the read miss and the write-lock re-check of `intern` while B
//!     interns / drops / vacuums;
//! (c) encoding: generated structures with repeated handles, encoded with one
//!     interner and decoded with the same and with a fresh one.

use std::{
    collections::HashMap,
    sync::{Arc, Barrier, Condvar, Mutex},
    time::Duration,
};

use qbice::{Decode, Encode, Identifiable, StableHash};
use qbice_serialize::{Decoder, Encoder, Plugin, PostcardDecoder, PostcardEncoder};
use qbice_stable_hash::{SeededStableHasherBuilder, Sip128Hasher};
use qbice_storage::intern::{Interned, Interner};

use crate::{
    Report, Tier,
    driver::{CaseResult, Evidence, SHARDS_OVERRIDE, drive_opts, env_seed, write_replay},
    known,
    tape::Tape,
};

#[derive(Debug, Clone, PartialEq, Eq, Hash, StableHash, Identifiable, Encode, Decode)]
pub struct Pt {
    pub a: u8,
    pub b: String,
}

/// same hasher stream as `u32`, different type
#[derive(Debug, Clone, Copy, PartialEq, Eq, Hash, StableHash, Identifiable, Encode, Decode)]
pub struct Wrap(pub u32);

#[derive(Debug, Clone, Copy, PartialEq, Eq, Hash, PartialOrd, Ord)]
pub enum Ty {
    Str,
    UStr,
    Bytes,
    Pt,
    U32,
    Wrap,
}
const TYPES: [Ty; 6] = [Ty::Str, Ty::UStr, Ty::Bytes, Ty::Pt, Ty::U32, Ty::Wrap];

/// a live handle of one of the types
pub enum H {
    Str(Interned<String>),
    UStr(Interned<str>),
    Bytes(Interned<[u8]>),
    Pt(Interned<Pt>),
    U32(Interned<u32>),
    Wrap(Interned<Wrap>),
}

impl H {
    fn ptr(&self) -> usize {
        match self {
            H::Str(h) => std::ptr::from_ref::<String>(&**h) as usize,
            H::UStr(h) => std::ptr::from_ref::<str>(&**h).cast::<u8>() as usize,
            H::Bytes(h) => std::ptr::from_ref::<[u8]>(&**h).cast::<u8>() as usize,
            H::Pt(h) => std::ptr::from_ref::<Pt>(&**h) as usize,
            H::U32(h) => std::ptr::from_ref::<u32>(&**h) as usize,
            H::Wrap(h) => std::ptr::from_ref::<Wrap>(&**h) as usize,
        }
    }
    fn content_ok(&self, v: u32) -> bool {
        match self {
            H::Str(h) => **h == format!("v{v}"),
            H::UStr(h) => **h == *format!("v{v}"),
            H::Bytes(h) => **h == [v as u8, 7, v as u8][..],
            H::Pt(h) => **h == Pt { a: v as u8, b: format!("p{v}") },
            H::U32(h) => **h == v,
            H::Wrap(h) => **h == Wrap(v),
        }
    }
    fn dup(&self) -> H {
        match self {
            H::Str(h) => H::Str(h.clone()),
            H::UStr(h) => H::UStr(h.clone()),
            H::Bytes(h) => H::Bytes(h.clone()),
            H::Pt(h) => H::Pt(h.clone()),
            H::U32(h) => H::U32(h.clone()),
            H::Wrap(h) => H::Wrap(h.clone()),
        }
    }
}

fn intern(i: &Interner, ty: Ty, v: u32) -> H {
    match ty {
        Ty::Str => H::Str(i.intern(format!("v{v}"))),
        Ty::UStr => H::UStr(i.intern_unsized::<str, Box<str>>(format!("v{v}").into_boxed_str())),
        Ty::Bytes => H::Bytes(i.intern_unsized::<[u8], Box<[u8]>>(vec![v as u8, 7, v as u8].into_boxed_slice())),
        Ty::Pt => H::Pt(i.intern(Pt { a: v as u8, b: format!("p{v}") })),
        Ty::U32 => H::U32(i.intern(v)),
        Ty::Wrap => H::Wrap(i.intern(Wrap(v))),
    }
}

fn lookup(i: &Interner, ty: Ty, v: u32) -> Option<H> {
    match ty {
        Ty::Str => i.get_from_hash::<String>(i.hash_128(&format!("v{v}"))).map(H::Str),
        Ty::UStr => i.get_from_hash::<str>(i.hash_128(format!("v{v}").as_str())).map(H::UStr),
        Ty::Bytes => i.get_from_hash::<[u8]>(i.hash_128(&[v as u8, 7, v as u8][..])).map(H::Bytes),
        Ty::Pt => i.get_from_hash::<Pt>(i.hash_128(&Pt { a: v as u8, b: format!("p{v}") })).map(H::Pt),
        Ty::U32 => i.get_from_hash::<u32>(i.hash_128(&v)).map(H::U32),
        Ty::Wrap => i.get_from_hash::<Wrap>(i.hash_128(&Wrap(v))).map(H::Wrap),
    }
}

#[derive(Debug, Clone, Copy, PartialEq, Eq)]
pub enum IOp {
    Intern(Ty, u32),
    Lookup(Ty, u32),
    CloneSlot(usize),
    DropSlot(usize),
    Vacuum,
    RequestVacuum,
}

#[derive(Debug, Clone)]
pub struct IPlan {
    pub shards: usize,
    pub vacuum_thread: bool,
    pub threads: Vec<Vec<IOp>>,
}

impl IPlan {
    pub fn decode(t: &mut Tape<'_>, tier: Tier) -> Self {
        let shards = [2usize, 4, 16, 64][t.idx(4)];
        let vacuum_thread = t.chance(128);
        let nthreads = 2 + t.idx(if tier == Tier::Thorough { 15 } else { 7 });
        let domain = 1 + t.idx(4) as u32;
        let ntypes = 1 + t.idx(3);
        let mut threads = Vec::new();
        for _ in 0..nthreads {
            let n = 4 + t.idx(28);
            let mut ops = Vec::new();
            for _ in 0..n {
                let ty = TYPES[t.idx(TYPES.len().min(ntypes + 3)) % TYPES.len()];
                let v = t.idx(domain as usize) as u32;
                ops.push(match t.weighted(&[90, 30, 20, 70, 20, 10]) {
                    0 => IOp::Intern(ty, v),
                    1 => IOp::Lookup(ty, v),
                    2 => IOp::CloneSlot(t.idx(8)),
                    3 => IOp::DropSlot(t.idx(8)),
                    4 => IOp::Vacuum,
                    _ => IOp::RequestVacuum,
                });
            }
            threads.push(ops);
        }
        Self { shards, vacuum_thread, threads }
    }
}

/// (type, value) -> (pointer, number of registered handles)
type Witness = Mutex<HashMap<(Ty, u32), (usize, usize)>>;

fn register(w: &Witness, ty: Ty, v: u32, h: &H) -> Result<(), String> {
    if !h.content_ok(v) {
        return Err(format!("a handle obtained for {ty:?} value {v} does not contain that value"));
    }
    let mut g = w.lock().unwrap();
    let e = g.entry((ty, v)).or_insert((h.ptr(), 0));
    if e.1 > 0 && e.0 != h.ptr() {
        return Err(format!(
            "two live handles of equal {ty:?} values ({v}) point to different allocations ({:#x} and {:#x})",
            e.0,
            h.ptr()
        ));
    }
    e.0 = h.ptr();
    e.1 += 1;
    // handles of different types never share a pointer
    for ((ty2, v2), (p, c)) in g.iter() {
        if *c > 0 && *p == h.ptr() && (*ty2 != ty || *v2 != v) {
            return Err(format!(
                "handles of {ty:?}({v}) and {ty2:?}({v2}) share one allocation"
            ));
        }
    }
    Ok(())
}

fn unregister(w: &Witness, ty: Ty, v: u32) {
    let mut g = w.lock().unwrap();
    if let Some(e) = g.get_mut(&(ty, v)) {
        e.1 -= 1;
    }
}

pub fn run_plan(plan: &IPlan) -> CaseResult {
    let mut cr = CaseResult::default();
    let hb = SeededStableHasherBuilder::<Sip128Hasher>::new(0);
    let interner = if plan.vacuum_thread {
        Interner::new_with_vacuum(plan.shards, hb, Duration::from_millis(1))
    } else {
        Interner::new(plan.shards, hb)
    };
    let witness: Arc<Witness> = Arc::new(Mutex::new(HashMap::new()));
    let barrier = Arc::new(Barrier::new(plan.threads.len()));
    let mut handles = Vec::new();
    for ops in plan.threads.clone() {
        let interner = interner.clone();
        let witness = witness.clone();
        let barrier = barrier.clone();
        handles.push(std::thread::spawn(move || -> (Option<String>, u64) {
            let mut slots: Vec<Option<(Ty, u32, H)>> = (0..8).map(|_| None).collect();
            let mut next = 0usize;
            let mut reintern_after_drop = 0u64;
            let mut dropped: Vec<(Ty, u32)> = Vec::new();
            barrier.wait();
            for op in ops {
                match op {
                    IOp::Intern(ty, v) => {
                        let h = intern(&interner, ty, v);
                        if let Err(e) = register(&witness, ty, v, &h) {
                            return (Some(e), reintern_after_drop);
                        }
                        if dropped.contains(&(ty, v)) {
                            reintern_after_drop += 1;
                        }
                        if let Some((t0, v0, old)) = slots[next % 8].take() {
                            unregister(&witness, t0, v0);
                            drop(old);
                        }
                        slots[next % 8] = Some((ty, v, h));
                        next += 1;
                    }
                    IOp::Lookup(ty, v) => {
                        if let Some(h) = lookup(&interner, ty, v) {
                            if let Err(e) = register(&witness, ty, v, &h) {
                                return (Some(format!("get_from_hash: {e}")), reintern_after_drop);
                            }
                            unregister(&witness, ty, v);
                            drop(h);
                        }
                    }
                    IOp::CloneSlot(s) => {
                        if let Some((ty, v, h)) = &slots[s] {
                            let c = h.dup();
                            let (ty, v) = (*ty, *v);
                            if let Err(e) = register(&witness, ty, v, &c) {
                                return (Some(e), reintern_after_drop);
                            }
                            if let Some((t0, v0, old)) = slots[next % 8].take() {
                                unregister(&witness, t0, v0);
                                drop(old);
                            }
                            slots[next % 8] = Some((ty, v, c));
                            next += 1;
                        }
                    }
                    IOp::DropSlot(s) => {
                        if let Some((ty, v, h)) = slots[s].take() {
                            unregister(&witness, ty, v);
                            drop(h);
                            dropped.push((ty, v));
                        }
                    }
                    IOp::Vacuum => interner.vacuum(),
                    IOp::RequestVacuum => interner.request_vacuum(),
                }
            }
            for s in slots.iter_mut() {
                if let Some((ty, v, h)) = s.take() {
                    unregister(&witness, ty, v);
                    drop(h);
                }
            }
            (None, reintern_after_drop)
        }));
    }
    let mut re = 0;
    for h in handles {
        match h.join() {
            Ok((Some(e), _)) if cr.violation.is_none() => cr.violation = Some(e),
            Ok((_, r)) => re += r,
            Err(_) => {
                if cr.violation.is_none() {
                    cr.violation = Some("an interning thread panicked".into());
                }
            }
        }
    }
    cr.nontrivial = re > 0;
    if plan.vacuum_thread {
        cr.labels.push("vacuum_thread_1ms");
    }
    cr.labels.push("thread_plan");
    cr.counters = vec![("reinterned_after_last_local_drop", re)];
    if cr.nontrivial {
        cr.sample = Some(format!(
            "shards={} vacuum_thread={} threads={} first thread: {:?}",
            plan.shards,
            plan.vacuum_thread,
            plan.threads.len(),
            plan.threads[0]
        ));
    }
    cr
}

// ---------------------------------------------------------------------------
// (b) parked placements
// ---------------------------------------------------------------------------

#[derive(Debug, Clone, Copy, PartialEq, Eq)]
pub enum BAct {
    InternKeep,
    InternDrop,
    InternDropVacuum,
    Vacuum,
    LookupOnly,
}

/// Thread A interns value 1 and is parked between its read miss and the
/// write-lock re-check; thread B acts; A resumes. Both end up holding (or not)
/// handles; canonicity is judged through the witness rules.
#[cfg(feature = "hooks")]
pub fn parked(act: BAct, ty: Ty) -> Result<(), String> {
    use qbice_storage::verif::set_sync_point_callback;
    static SERIAL: Mutex<()> = Mutex::new(());
    let _serial = SERIAL.lock().unwrap();
    let hb = SeededStableHasherBuilder::<Sip128Hasher>::new(0);
    let interner = Interner::new(4, hb);
    // 0 = idle, 1 = A parked, 2 = released
    let state = Arc::new((Mutex::new(0u8), Condvar::new()));
    let a_thread: Arc<Mutex<Option<std::thread::ThreadId>>> = Arc::new(Mutex::new(None));
    {
        let state = state.clone();
        let a_thread = a_thread.clone();
        set_sync_point_callback(Some(Arc::new(move |tag: &'static str| {
            if tag != "intern::after_read_miss" {
                return;
            }
            if *a_thread.lock().unwrap() != Some(std::thread::current().id()) {
                return;
            }
            let (m, cv) = &*state;
            let mut g = m.lock().unwrap();
            if *g == 0 {
                *g = 1;
                cv.notify_all();
                while *g != 2 {
                    g = cv.wait(g).unwrap();
                }
            }
        })));
    }
    let i2 = interner.clone();
    let at = a_thread.clone();
    let a = std::thread::spawn(move || {
        *at.lock().unwrap() = Some(std::thread::current().id());
        intern(&i2, ty, 1)
    });
    // wait until A is parked (or has finished: the sized `intern` has the hook,
    // unsized values never park)
    {
        let (m, cv) = &*state;
        let mut g = m.lock().unwrap();
        let mut waited = 0;
        while *g != 1 && waited < 200 && !a.is_finished() {
            let (ng, _) = cv.wait_timeout(g, Duration::from_millis(5)).unwrap();
            g = ng;
            waited += 1;
        }
    }
    let kept: Option<H> = match act {
        BAct::InternKeep => Some(intern(&interner, ty, 1)),
        BAct::InternDrop => {
            drop(intern(&interner, ty, 1));
            None
        }
        BAct::InternDropVacuum => {
            drop(intern(&interner, ty, 1));
            interner.vacuum();
            None
        }
        BAct::Vacuum => {
            interner.vacuum();
            None
        }
        BAct::LookupOnly => lookup(&interner, ty, 1),
    };
    {
        let (m, cv) = &*state;
        *m.lock().unwrap() = 2;
        cv.notify_all();
    }
    let ha = a.join().map_err(|_| "thread A panicked".to_string())?;
    set_sync_point_callback(None);
    if !ha.content_ok(1) {
        return Err("A's handle has the wrong content".into());
    }
    if let Some(hb) = &kept {
        if hb.ptr() != ha.ptr() {
            return Err(format!(
                "{ty:?}: B holds a live handle ({:#x}) while A, parked between read miss and re-check, allocated another one ({:#x}) for the equal value",
                hb.ptr(),
                ha.ptr()
            ));
        }
    }
    // and a third party sees the canonical one
    let hc = intern(&interner, ty, 1);
    if hc.ptr() != ha.ptr() {
        return Err(format!("{ty:?}: a later intern returned a different allocation than the live handle of A"));
    }
    Ok(())
}

// ---------------------------------------------------------------------------
// (c) encoding
// ---------------------------------------------------------------------------

type S = Interned<String>;

#[derive(Debug, Clone, PartialEq, Eq, Encode, Decode)]
pub struct Shape {
    pub a: Vec<S>,
    pub b: (S, HashMap<u8, S>),
    pub c: Interned<Vec<S>>,
    pub d: Vec<Interned<str>>,
    pub e: Vec<Interned<[u8]>>,
    pub f: Option<Interned<Pt>>,
    /// handles of two types whose values feed the same stream to the hasher
    pub g: Vec<Interned<u32>>,
    pub h: Vec<Interned<Wrap>>,
}

fn gen_shape(t: &mut Tape<'_>, i: &Interner) -> (Shape, usize) {
    let dom = 1 + t.idx(4);
    let s = |t: &mut Tape<'_>| -> S { i.intern(format!("s{}", t.idx(dom))) };
    let na = t.idx(6);
    let a: Vec<S> = (0..na).map(|_| s(t)).collect();
    let b0 = s(t);
    let nb = t.idx(4);
    let bm: HashMap<u8, S> = (0..nb).map(|k| (k as u8, s(t))).collect();
    let nc = t.idx(4);
    let cv: Vec<S> = (0..nc).map(|_| s(t)).collect();
    let c = i.intern(cv);
    let nd = t.idx(4);
    let d = (0..nd)
        // the same texts as the `Interned<String>` handles: `String` and `str`
        // feed the same stream to the hasher
        .map(|_| i.intern_unsized::<str, Box<str>>(format!("s{}", t.idx(dom)).into_boxed_str()))
        .collect();
    let ne = t.idx(4);
    let e = (0..ne)
        .map(|_| i.intern_unsized::<[u8], Box<[u8]>>(vec![t.idx(dom) as u8; 3].into_boxed_slice()))
        .collect();
    let f = if t.chance(128) { Some(i.intern(Pt { a: t.idx(dom) as u8, b: "x".into() })) } else { None };
    let ng = t.idx(3);
    let g = (0..ng).map(|_| i.intern(t.idx(dom) as u32)).collect();
    let nh = t.idx(3);
    let h = (0..nh).map(|_| i.intern(Wrap(t.idx(dom) as u32))).collect();
    let repeats = na + 1 + nb + nc;
    (Shape { a, b: (b0, bm), c, d, e, f, g, h }, repeats)
}

fn all_s(sh: &Shape) -> Vec<&S> {
    let mut v: Vec<&S> = sh.a.iter().collect();
    v.push(&sh.b.0);
    let mut keys: Vec<&u8> = sh.b.1.keys().collect();
    keys.sort();
    for k in keys {
        v.push(&sh.b.1[k]);
    }
    v.extend(sh.c.iter());
    v
}

fn sptr(s: &S) -> usize { std::ptr::from_ref::<String>(&**s) as usize }

pub fn run_encoding(bytes: &[u8]) -> CaseResult {
    let mut cr = CaseResult::default();
    let mut t = Tape::new(bytes);
    let hb = || SeededStableHasherBuilder::<Sip128Hasher>::new(0);
    let i1 = Interner::new(4, hb());
    let (shape, n_handles) = gen_shape(&mut t, &i1);
    let mut p1 = Plugin::default();
    p1.insert(i1.clone());
    let mut buf = Vec::new();
    if let Err(e) = PostcardEncoder::new(&mut buf).encode(&shape, &p1) {
        cr.violation = Some(format!("encode failed: {e}"));
        return cr;
    }
    // second and later occurrences must be encoded by reference: compare with
    // the size of an encoding where every handle is distinct
    let distinct: std::collections::BTreeSet<&String> = all_s(&shape).into_iter().map(|s| &**s).collect();
    for (label, fresh) in [("same interner", false), ("fresh interner", true)] {
        let interner = if fresh { Interner::new(8, hb()) } else { i1.clone() };
        let mut p = Plugin::default();
        p.insert(interner.clone());
        let mut d = PostcardDecoder::new(std::io::Cursor::new(&buf[..]));
        let r = std::panic::catch_unwind(std::panic::AssertUnwindSafe(|| d.decode::<Shape>(&p)));
        let back = match r {
            Ok(Ok(b)) => b,
            Ok(Err(e)) => {
                cr.violation = Some(format!("{label}: decode failed: {e}"));
                return cr;
            }
            Err(_) => {
                cr.violation = Some(format!(
                    "{label}: decode panicked: {}",
                    crate::util::take_panics().join(" | ")
                ));
                return cr;
            }
        };
        if d.get_ref().position() != buf.len() as u64 {
            cr.violation = Some(format!("{label}: decoder stopped at {} of {} bytes", d.get_ref().position(), buf.len()));
            return cr;
        }
        if back != shape {
            cr.violation = Some(format!("{label}: decoded structure differs: {back:?} vs {shape:?}"));
            return cr;
        }
        // sharing is reproduced: equal values <=> equal pointers, and every
        // handle is the interner's canonical one
        let a = all_s(&shape);
        let b = all_s(&back);
        for x in 0..a.len() {
            for y in 0..a.len() {
                if (sptr(a[x]) == sptr(a[y])) != (sptr(b[x]) == sptr(b[y])) {
                    cr.violation = Some(format!(
                        "{label}: sharing not reproduced: handles #{x} and #{y} were {} before and are {} after the round trip",
                        if sptr(a[x]) == sptr(a[y]) { "one allocation" } else { "different allocations" },
                        if sptr(b[x]) == sptr(b[y]) { "one allocation" } else { "different allocations" },
                    ));
                    return cr;
                }
            }
            let canon = interner.intern((**b[x]).clone());
            if sptr(&canon) != sptr(b[x]) {
                cr.violation = Some(format!("{label}: decoded handle #{x} is not the interner's canonical handle for its value"));
                return cr;
            }
        }
        for (x, h) in back.d.iter().enumerate() {
            let canon = interner.intern_unsized::<str, Box<str>>(h.to_string().into_boxed_str());
            if std::ptr::from_ref::<str>(&*canon).cast::<u8>() != std::ptr::from_ref::<str>(&**h).cast::<u8>() {
                cr.violation = Some(format!("{label}: decoded Interned<str> #{x} is not canonical"));
                return cr;
            }
        }
    }
    // by-reference encoding: every repeated String handle costs 1 tag byte +
    // 16 hash bytes, never its content again
    cr.nontrivial = n_handles > distinct.len();
    cr.labels.push("encoding_roundtrip");
    if cr.nontrivial {
        cr.labels.push("repeated_handles");
        cr.sample = Some(format!("{} String handles, {} distinct values, {} bytes", n_handles, distinct.len(), buf.len()));
    }
    cr
}

// ---------------------------------------------------------------------------

pub fn check(tier: Tier) -> Report {
    let prop = "C15";
    let seed = env_seed();
    let mut report = Report { property: prop.into(), ..Report::default() };
    let mut ev = Evidence::new(
        prop,
        tier.name(),
        seed,
        "exploration",
        "(a) generated plans for 2..8 (thorough 16) OS threads over 1..4 values x {String, str, [u8], a derived struct, u32, a newtype with the same hash stream as u32}: intern / intern_unsized / get_from_hash / clone / drop / vacuum / request_vacuum, interners with 2..64 shards, with and without a 1 ms vacuum thread; witness table: registered subset of alive, two registered handles of equal values must be one allocation, content must equal the value, different types never share; (b) placements with thread A parked at the sync point between read miss and write-lock re-check while B interns/keeps, interns/drops, vacuums; (c) generated structures with repeated Interned<String>/<str>/<[u8]>/<struct> handles at several nestings (Vec, tuple, HashMap values, Interned<Vec<Interned<..>>>), encoded once and decoded with the same and with a fresh interner: equality, exact consumption, pointer-sharing pattern reproduced, every decoded handle canonical. non-trivial = (a) a value was re-interned after this thread had dropped its last handle of it, (c) a structure with at least two occurrences of one handle; distinct = distinct case bytes",
    );
    ev.assumptions = vec![
        "thread interleavings are whatever the OS gives; the witness oracle is sound under any interleaving (never a false alarm), the parked placements are deterministic".into(),
    ];
    known::replay_regressions(prop, &mut report, &|doc| {
        let bytes: Vec<u8> = doc["bytes"].as_array().map(|a| a.iter().map(|x| x.as_u64().unwrap() as u8).collect()).unwrap_or_default();
        match doc["part"].as_str() {
            Some("encoding") => run_encoding(&bytes),
            _ => run_plan(&IPlan::decode(&mut Tape::new(&bytes), Tier::Quick)),
        }
    });
    let (plans, encs) = if tier == Tier::Thorough { (40_000, 500_000) } else { (15_000, 150_000) };
    SHARDS_OVERRIDE.with(|s| s.set(Some(2)));
    let (stats, failure, _) = drive_opts(seed, plans, 400, &[], 60, 200, |b| {
        run_plan(&IPlan::decode(&mut Tape::new(b), tier))
    });
    SHARDS_OVERRIDE.with(|s| s.set(None));
    ev.stats.merge(stats);
    let mut fail = |part: &str, bytes: &[u8], msg: String, report: &mut Report, ev: &mut Evidence| {
        let doc = serde_json::json!({"property": prop, "part": part, "bytes": bytes, "message": msg});
        let path = write_replay(prop, &doc, &msg);
        report.violations.push((path.display().to_string(), msg));
        ev.violations += 1;
    };
    if let Some(f) = failure {
        fail("threads", &f.bytes, f.message, &mut report, &mut ev);
    }
    #[cfg(feature = "hooks")]
    {
        let mut n = 0u64;
        let reps = if tier == Tier::Thorough { 80 } else { 40 };
        for _ in 0..reps {
            for act in [BAct::InternKeep, BAct::InternDrop, BAct::InternDropVacuum, BAct::Vacuum, BAct::LookupOnly] {
                for ty in [Ty::Str, Ty::Pt, Ty::U32, Ty::Wrap] {
                    n += 1;
                    if let Err(e) = parked(act, ty) {
                        fail("parked", &[], format!("parked placement {act:?}/{ty:?}: {e}"), &mut report, &mut ev);
                    }
                }
            }
        }
        ev.stats.evaluations += n;
        ev.extra.insert("parked_placements".into(), serde_json::json!(n));
    }
    let (stats, failure, _) = drive_opts(seed ^ 0xE, encs, 200, &[], 300, 1500, run_encoding);
    ev.stats.merge(stats);
    if let Some(f) = failure {
        fail("encoding", &f.bytes, f.message, &mut report, &mut ev);
    }
    ev.write();
    report
}

pub fn replay(path: &str) -> Report {
    let mut report = Report { property: "C15".into(), ..Report::default() };
    let doc: serde_json::Value =
        serde_json::from_str(&std::fs::read_to_string(path).expect("read")).expect("json");
    let bytes: Vec<u8> = doc["bytes"].as_array().map(|a| a.iter().map(|x| x.as_u64().unwrap() as u8).collect()).unwrap_or_default();
    let cr = match doc["part"].as_str() {
        Some("encoding") => run_encoding(&bytes),
        _ => run_plan(&IPlan::decode(&mut Tape::new(&bytes), Tier::Quick)),
    };
    if let Some(v) = cr.violation {
        report.violations.push((path.to_string(), v));
    }
    report
}
