//! Checks C10 (write-behind ordering/durability) and C09 (cached maps return
//! the latest write), driven through the public storage API over MockKv.

use std::{
    collections::{BTreeMap, BTreeSet},
    sync::{Arc, atomic::Ordering},
    time::{Duration, Instant},
};

use dashmap::DashSet;
use qbice::{Decode, Encode, Identifiable};
use qbice_serialize::Plugin;
use qbice_storage::{
    dynamic_map::DynamicMap as _,
    key_of_set_map::KeyOfSetMap as _,
    kv_database::{
        DiscriminantEncoding, KeyOfSetColumn, KvDatabase, WideColumn,
        WideColumnValue,
    },
    single_map::SingleMap as _,
    storage_engine::{
        StorageEngine,
        db_backed::{Configuration, DbBacked},
    },
    write_manager::{WriteManager as _, write_behind::WriteBatch},
};

use crate::{
    Report, Tier,
    driver::{CaseResult, Evidence, drive, env_seed, write_replay},
    known,
    mockkv::{Grouping, MockKv, Op, Store},
    tape::Tape,
};

// ---------------------------------------------------------------------------
// column zoo
// ---------------------------------------------------------------------------

#[derive(Debug, Clone, Copy, PartialEq, Eq, Hash, Identifiable)]
pub struct ColA;
impl WideColumn for ColA {
    type Key = u16;
    type Discriminant = u8;
    fn discriminant_encoding() -> DiscriminantEncoding { DiscriminantEncoding::Prefixed }
}
#[derive(Debug, Clone, PartialEq, Eq, Encode, Decode)]
pub struct ValA(pub u32);
impl WideColumnValue<ColA> for ValA {
    fn discriminant() -> u8 { 0 }
}
#[derive(Debug, Clone, PartialEq, Eq, Encode, Decode)]
pub struct ValB(pub String);
impl WideColumnValue<ColA> for ValB {
    fn discriminant() -> u8 { 1 }
}

#[derive(Debug, Clone, Copy, PartialEq, Eq, Hash, Identifiable)]
pub struct ColD;
impl WideColumn for ColD {
    type Key = u16;
    type Discriminant = u8;
    fn discriminant_encoding() -> DiscriminantEncoding { DiscriminantEncoding::Suffixed }
}
#[derive(Debug, Clone, PartialEq, Eq, Encode, Decode)]
pub struct DynX(pub u32);
impl WideColumnValue<ColD> for DynX {
    fn discriminant() -> u8 { 7 }
}
#[derive(Debug, Clone, PartialEq, Eq, Encode, Decode)]
pub struct DynY(pub Vec<u8>);
impl WideColumnValue<ColD> for DynY {
    fn discriminant() -> u8 { 8 }
}

/// marker column: one row per logical batch (identifies batches in the log)
#[derive(Debug, Clone, Copy, PartialEq, Eq, Hash, Identifiable)]
pub struct ColM;
impl WideColumn for ColM {
    type Key = u32;
    type Discriminant = ();
    fn discriminant_encoding() -> DiscriminantEncoding { DiscriminantEncoding::Prefixed }
}
#[derive(Debug, Clone, PartialEq, Eq, Encode, Decode)]
pub struct Marker(pub u32);
impl WideColumnValue<ColM> for Marker {
    fn discriminant() {}
}

#[derive(Debug, Clone, Copy, PartialEq, Eq, Hash, Identifiable)]
pub struct ColS;
impl KeyOfSetColumn for ColS {
    type Key = u16;
    type Element = u32;
}

type SetC = Arc<DashSet<u32, fxhash::FxBuildHasher>>;

#[derive(Debug, Clone, PartialEq, Eq)]
pub enum MapOp {
    PutA(u16, u32),
    DelA(u16),
    PutB(u16, String),
    DelB(u16),
    PutX(u16, u32),
    DelX(u16),
    PutY(u16, Vec<u8>),
    DelY(u16),
    SetIns(u16, u32),
    SetDel(u16, u32),
}

#[derive(Debug, Clone, Default, PartialEq, Eq)]
pub struct StoreModel {
    pub a: BTreeMap<u16, u32>,
    pub b: BTreeMap<u16, String>,
    pub x: BTreeMap<u16, u32>,
    pub y: BTreeMap<u16, Vec<u8>>,
    pub s: BTreeMap<u16, BTreeSet<u32>>,
}

impl StoreModel {
    pub fn apply(&mut self, op: &MapOp) {
        match op {
            MapOp::PutA(k, v) => {
                self.a.insert(*k, *v);
            }
            MapOp::DelA(k) => {
                self.a.remove(k);
            }
            MapOp::PutB(k, v) => {
                self.b.insert(*k, v.clone());
            }
            MapOp::DelB(k) => {
                self.b.remove(k);
            }
            MapOp::PutX(k, v) => {
                self.x.insert(*k, *v);
            }
            MapOp::DelX(k) => {
                self.x.remove(k);
            }
            MapOp::PutY(k, v) => {
                self.y.insert(*k, v.clone());
            }
            MapOp::DelY(k) => {
                self.y.remove(k);
            }
            MapOp::SetIns(k, e) => {
                self.s.entry(*k).or_default().insert(*e);
            }
            MapOp::SetDel(k, e) => {
                if let Some(s) = self.s.get_mut(k) {
                    s.remove(e);
                }
            }
        }
    }
}

pub struct Maps {
    pub a: <DbBacked<MockKv> as StorageEngine>::SingleMap<ColA, ValA>,
    pub b: <DbBacked<MockKv> as StorageEngine>::SingleMap<ColA, ValB>,
    pub d: <DbBacked<MockKv> as StorageEngine>::DynamicMap<ColD>,
    pub m: <DbBacked<MockKv> as StorageEngine>::SingleMap<ColM, Marker>,
    pub s: <DbBacked<MockKv> as StorageEngine>::KeyOfSetMap<ColS, SetC>,
}

impl Maps {
    pub fn new(e: &DbBacked<MockKv>) -> Self {
        Self {
            a: e.new_single_map::<ColA, ValA>(),
            b: e.new_single_map::<ColA, ValB>(),
            d: e.new_dynamic_map::<ColD>(),
            m: e.new_single_map::<ColM, Marker>(),
            s: e.new_key_of_set_map::<ColS, SetC>(),
        }
    }

    pub async fn apply(&self, op: &MapOp, tx: &mut WriteBatch<MockKv>) {
        match op {
            MapOp::PutA(k, v) => self.a.insert(*k, ValA(*v), tx).await,
            MapOp::DelA(k) => self.a.remove(k, tx).await,
            MapOp::PutB(k, v) => self.b.insert(*k, ValB(v.clone()), tx).await,
            MapOp::DelB(k) => self.b.remove(k, tx).await,
            MapOp::PutX(k, v) => self.d.insert(*k, DynX(*v), tx).await,
            MapOp::DelX(k) => self.d.remove::<DynX>(k, tx).await,
            MapOp::PutY(k, v) => self.d.insert(*k, DynY(v.clone()), tx).await,
            MapOp::DelY(k) => self.d.remove::<DynY>(k, tx).await,
            MapOp::SetIns(k, e) => self.s.insert(*k, *e, tx).await,
            MapOp::SetDel(k, e) => self.s.remove(k, e, tx).await,
        }
    }
}

fn gen_op(t: &mut Tape<'_>, keys: usize, elems: usize) -> MapOp {
    let k = t.idx(keys) as u16;
    match t.weighted(&[40, 16, 16, 8, 16, 8, 12, 6, 60, 40]) {
        0 => MapOp::PutA(k, t.idx(200) as u32),
        1 => MapOp::DelA(k),
        2 => MapOp::PutB(k, "x".repeat(t.idx(5))),
        3 => MapOp::DelB(k),
        4 => MapOp::PutX(k, t.idx(200) as u32),
        5 => MapOp::DelX(k),
        6 => MapOp::PutY(k, vec![t.byte(); t.idx(4)]),
        7 => MapOp::DelY(k),
        8 => MapOp::SetIns(k, t.idx(elems) as u32),
        _ => MapOp::SetDel(k, t.idx(elems) as u32),
    }
}

pub fn read_store(db: &MockKv, keys: usize) -> StoreModel {
    let mut m = StoreModel::default();
    for k in 0..keys as u16 {
        if let Some(v) = db.get_wide_column::<ColA, ValA>(&k) {
            m.a.insert(k, v.0);
        }
        if let Some(v) = db.get_wide_column::<ColA, ValB>(&k) {
            m.b.insert(k, v.0);
        }
        if let Some(v) = db.get_wide_column::<ColD, DynX>(&k) {
            m.x.insert(k, v.0);
        }
        if let Some(v) = db.get_wide_column::<ColD, DynY>(&k) {
            m.y.insert(k, v.0);
        }
        let s: BTreeSet<u32> = db.scan_members::<ColS>(&k).collect();
        if !s.is_empty() {
            m.s.insert(k, s);
        }
    }
    m
}

fn normalize(mut m: StoreModel) -> StoreModel {
    m.s.retain(|_, v| !v.is_empty());
    m
}

// ---------------------------------------------------------------------------
// C10
// ---------------------------------------------------------------------------

#[derive(Debug, Clone)]
pub struct C10Plan {
    pub workers: usize,
    pub threads: usize,
    pub keys: usize,
    pub grouping: Grouping,
    /// ops per batch, in creation order
    pub batches: Vec<Vec<MapOp>>,
    /// submission order (permutation of batch indices) and the thread doing it
    pub submit: Vec<(usize, usize)>,
    /// gate: permits released after the i-th submission (None = gate open)
    pub gate: Option<Vec<u8>>,
    pub drop_maps_early: bool,
    /// batches submitted without the harness's marker row: together with an
    /// empty op list that is a batch with no writes at all
    pub bare: Vec<bool>,
}

impl C10Plan {
    pub fn decode(t: &mut Tape<'_>, tier: Tier) -> Self {
        let workers = 1 + t.idx(4);
        let threads = 1 + t.idx(8);
        let keys = 2 + t.idx(10);
        let grouping = match t.idx(4) {
            0 | 1 => Grouping::Never,
            2 => Grouping::UpTo(2),
            _ => Grouping::UpTo(5),
        };
        let maxb = if tier == Tier::Thorough { 200 } else { 60 };
        let n = 2 + t.idx(maxb);
        let mut batches = Vec::new();
        for _ in 0..n {
            let k = t.idx(7);
            batches.push((0..k).map(|_| gen_op(t, keys, 6)).collect());
        }
        // permutation: start with identity, apply generated swaps (more bytes
        // = more disorder; shrinks towards creation order)
        let mut order: Vec<usize> = (0..n).collect();
        let swaps = t.idx(n * 2);
        for _ in 0..swaps {
            let i = t.idx(n);
            let j = t.idx(n);
            order.swap(i, j);
        }
        let submit = order.into_iter().map(|b| (b, t.idx(threads))).collect();
        let gate = if t.chance(128) {
            Some((0..n).map(|_| t.idx(3) as u8).collect())
        } else {
            None
        };
        let drop_maps_early = t.chance(40);
        let bare = (0..n).map(|_| t.chance(36)).collect();
        Self {
            workers,
            threads,
            keys,
            grouping,
            batches,
            submit,
            gate,
            drop_maps_early,
            bare,
        }
    }

    pub fn pretty(&self) -> String {
        format!("{self:#?}")
    }
}

fn marker_of(buf: &[Op]) -> Vec<u32> {
    let mid = crate::mockkv::column_id::<ColM>();
    buf.iter()
        .filter_map(|op| match op {
            Op::Put(row, _, val) if row.0 == mid => {
                // Marker(u32) is a postcard varint
                let mut v: u32 = 0;
                let mut shift = 0;
                for b in val {
                    v |= u32::from(b & 0x7f) << shift;
                    if b & 0x80 == 0 {
                        break;
                    }
                    shift += 7;
                }
                Some(v)
            }
            _ => None,
        })
        .collect()
}

pub fn run_c10(plan: &C10Plan) -> CaseResult {
    let mut cr = CaseResult::default();
    let store = Arc::new(Store::new());
    *store.grouping.lock() = plan.grouping;
    if plan.gate.is_some() {
        store.close_gate();
    }
    let db = MockKv::new(store.clone(), Plugin::default());
    let engine = DbBacked::new(
        db.clone(),
        Configuration::builder()
            .cache_capacity(4)
            .serialization_workers(plan.workers)
            .build(),
    );
    let wm = engine.new_write_manager();
    let maps = Arc::new(Maps::new(&engine));
    let n = plan.batches.len();
    // create all batches in one global order (= epoch order)
    let mut txs: Vec<Option<WriteBatch<MockKv>>> =
        (0..n).map(|_| Some(wm.new_write_batch())).collect();
    // fill (through the public maps) and submit from generated threads in the
    // generated order; a per-thread queue keeps the plan's order per thread
    let mut expected = StoreModel::default();
    for ops in &plan.batches {
        // within a batch the last op per key wins; sequential application of
        // the op list gives exactly that
        for op in ops {
            expected.apply(op);
        }
    }
    let wm = Arc::new(wm);
    let mut early_violation: Option<String> = None;
    std::thread::scope(|scope| {
        let mut queues: Vec<Vec<(usize, WriteBatch<MockKv>)>> =
            (0..plan.threads).map(|_| Vec::new()).collect();
        for (b, th) in &plan.submit {
            queues[*th].push((*b, txs[*b].take().unwrap()));
        }
        let mut handles = Vec::new();
        for q in queues {
            let maps = maps.clone();
            let wm = wm.clone();
            let batches = &plan.batches;
            let bare = &plan.bare;
            handles.push(scope.spawn(move || {
                for (b, mut tx) in q {
                    futures::executor::block_on(async {
                        if !bare[b] {
                            maps.m.insert(b as u32, Marker(b as u32), &mut tx).await;
                        }
                        for op in &batches[b] {
                            maps.apply(op, &mut tx).await;
                        }
                    });
                    wm.submit_write_batch(tx);
                }
            }));
        }
        // release permits while the submitters run
        if let Some(g) = &plan.gate {
            for k in g {
                if *k > 0 {
                    store.release(u64::from(*k));
                }
                std::thread::yield_now();
            }
        }
        for h in handles {
            if h.join().is_err() {
                early_violation = Some("a submitting thread panicked".into());
            }
        }
    });
    // a batch whose predecessors are not all submitted... all are submitted
    // now. Shut down: drop must return only after everything is durable.
    if plan.drop_maps_early {
        drop(maps);
        store.open_gate();
        drop(wm);
    } else {
        store.open_gate();
        drop(wm);
        drop(maps);
    }
    if let Some(v) = early_violation {
        cr.violation = Some(v);
        return cr;
    }
    // (1) final content == sequential application in creation order
    let got = normalize(read_store(&db, plan.keys));
    let want = normalize(expected);
    if got != want {
        cr.violation = Some(format!(
            "store content after drop(WriteBehind) differs from sequential application in creation order:\n got  {got:?}\n want {want:?}"
        ));
        return cr;
    }
    // (2) commit log: every logical batch exactly once, in creation order
    let log = store.log.lock().clone();
    let mut seen = Vec::new();
    let mut unmarked = 0usize;
    for pb in &log {
        for buf in &pb.bufs {
            let ids = marker_of(buf);
            if ids.is_empty() {
                unmarked += 1;
                continue;
            }
            if ids.len() != 1 {
                cr.violation = Some(format!(
                    "a logical buffer in the commit log carries {} batch markers",
                    ids.len()
                ));
                return cr;
            }
            seen.push(ids[0]);
        }
    }
    let n_bare = plan.bare.iter().filter(|b| **b).count();
    if unmarked > n_bare {
        cr.violation = Some(format!(
            "the commit log holds {unmarked} logical buffers without a batch marker, only {n_bare} batches were submitted without one"
        ));
        return cr;
    }
    let want_ids: Vec<u32> = (0..n as u32).filter(|b| !plan.bare[*b as usize]).collect();
    if seen != want_ids {
        cr.violation = Some(format!(
            "commit log order {seen:?} is not the creation order {want_ids:?}"
        ));
        return cr;
    }
    // non-trivial: submission order != creation order and two batches touch
    // the same key with different final values
    let reordered = plan.submit.iter().map(|x| x.0).ne(0..n);
    let mut by_key: BTreeMap<String, BTreeSet<usize>> = BTreeMap::new();
    for (i, ops) in plan.batches.iter().enumerate() {
        for op in ops {
            let key = match op {
                MapOp::PutA(k, _) | MapOp::DelA(k) => format!("a{k}"),
                MapOp::PutB(k, _) | MapOp::DelB(k) => format!("b{k}"),
                MapOp::PutX(k, _) | MapOp::DelX(k) => format!("x{k}"),
                MapOp::PutY(k, _) | MapOp::DelY(k) => format!("y{k}"),
                MapOp::SetIns(k, e) | MapOp::SetDel(k, e) => format!("s{k}/{e}"),
            };
            by_key.entry(key).or_default().insert(i);
        }
    }
    let overlap = by_key.values().any(|s| s.len() >= 2);
    cr.nontrivial = reordered && overlap;
    cr.labels = vec![];
    if reordered {
        cr.labels.push("submission_order_differs");
    }
    if overlap {
        cr.labels.push("same_key_in_several_batches");
    }
    if plan.gate.is_some() {
        cr.labels.push("commit_gate_used");
    }
    if plan.threads > 1 {
        cr.labels.push("multi_threaded_submit");
    }
    if plan.bare.iter().zip(&plan.batches).any(|(b, ops)| *b && ops.is_empty()) {
        cr.labels.push("batch_without_any_write");
    }
    if !matches!(plan.grouping, Grouping::Never) {
        cr.labels.push("physical_grouping");
    }
    cr.counters = vec![
        ("logical_batches", n as u64),
        ("physical_commits", log.len() as u64),
    ];
    if cr.nontrivial {
        cr.sample = Some(format!(
            "workers={} threads={} grouping={:?} batches={} submit_order={:?}",
            plan.workers,
            plan.threads,
            plan.grouping,
            n,
            plan.submit.iter().map(|x| x.0).collect::<Vec<_>>()
        ));
    }
    cr
}

pub fn check_c10(tier: Tier) -> Report {
    let prop = "C10";
    let seed = env_seed();
    let mut report = Report { property: prop.into(), ..Report::default() };
    let mut ev = Evidence::new(
        prop,
        tier.name(),
        seed,
        "exploration",
        "case = plan: 1..4 serializer workers, 1..8 submitting OS threads, 2..60 (thorough 200) write batches created in one global order and filled through the public cached maps with puts/deletes/member inserts/deletes over overlapping keys, submitted in a generated permutation by generated threads; generated physical grouping policy and commit-gate permits; then drop(WriteBehind). Oracle immediately after drop returns: MockKv content == sequential application of the batches in creation order; commit log lists every batch exactly once in creation order. non-trivial = submission order differs from creation order AND two batches write the same key/element; distinct = distinct case bytes",
    );
    ev.assumptions = vec![
        "every created batch is submitted exactly once (precondition from the code: an unsubmitted batch stalls the pipeline)".into(),
        "thread interleavings of the serializer/commit/notifier threads are whatever the OS gives; the oracle is interleaving-independent".into(),
    ];
    known::replay_regressions(prop, &mut report, &|_doc| CaseResult::default());
    let cases = if tier == Tier::Thorough { 120_000 } else { 15_000 };
    let (stats, failure, _) = drive(seed, cases, 1500, &[], |bytes| {
        let mut t = Tape::new(bytes);
        let plan = C10Plan::decode(&mut t, tier);
        run_c10(&plan)
    });
    ev.stats.merge(stats);
    if let Some(f) = failure {
        let mut t = Tape::new(&f.bytes);
        let plan = C10Plan::decode(&mut t, tier);
        let doc = serde_json::json!({
            "property": prop, "message": f.message, "tier": tier.name(),
            "bytes": f.bytes, "plan": plan.pretty(),
        });
        let path = write_replay(prop, &doc, &format!("{}\n{}", f.message, plan.pretty()));
        report.violations.push((path.display().to_string(), f.message));
        ev.violations += 1;
    }
    ev.write();
    report
}

pub fn replay_c10(path: &str) -> Report {
    let mut report = Report { property: "C10".into(), ..Report::default() };
    let doc: serde_json::Value =
        serde_json::from_str(&std::fs::read_to_string(path).expect("read")).expect("json");
    let bytes: Vec<u8> = doc["bytes"]
        .as_array()
        .unwrap()
        .iter()
        .map(|x| x.as_u64().unwrap() as u8)
        .collect();
    let tier = if doc["tier"].as_str() == Some("thorough") { Tier::Thorough } else { Tier::Quick };
    let mut t = Tape::new(&bytes);
    let plan = C10Plan::decode(&mut t, tier);
    println!("{}", plan.pretty());
    if let Some(v) = run_c10(&plan).violation {
        report.violations.push((path.to_string(), v));
    }
    report
}

// ---------------------------------------------------------------------------
// C09
// ---------------------------------------------------------------------------

#[derive(Debug, Clone, PartialEq, Eq)]
pub enum C9Op {
    NewBatch,
    /// write into the open batch with this index (among open batches)
    Write(usize, MapOp),
    /// n distinct element inserts into one set key (crosses the 1024 spill)
    Bulk(usize, u16, u32, u32),
    Submit(usize),
    /// let k physical commits through; wait for the cache notifications or not
    Release(u8, bool),
    Get(u16),
}

#[derive(Debug, Clone)]
pub struct C9Plan {
    pub capacity: u64,
    pub workers: usize,
    pub keys: usize,
    pub elems: usize,
    pub grouping: Grouping,
    pub ops: Vec<C9Op>,
}

impl C9Plan {
    pub fn decode(t: &mut Tape<'_>, tier: Tier) -> Self {
        let capacity = [1u64, 1, 2, 3, 4, 8, 16][t.idx(7)];
        let workers = 1 + t.idx(3);
        let keys = 3 + t.idx(if tier == Tier::Thorough { 38 } else { 14 });
        let elems = 3 + t.idx(8);
        let grouping = match t.idx(3) {
            0 | 1 => Grouping::Never,
            _ => Grouping::UpTo(3),
        };
        let n = 20 + t.idx(if tier == Tier::Thorough { 380 } else { 160 });
        let mut ops = Vec::new();
        let mut bulk_budget = 2;
        for _ in 0..n {
            if t.is_empty() {
                break;
            }
            match t.weighted(&[18, 110, if bulk_budget > 0 { 3 } else { 0 }, 26, 30, 90]) {
                0 => ops.push(C9Op::NewBatch),
                1 => ops.push(C9Op::Write(t.idx(4), gen_op(t, keys, elems))),
                2 => {
                    bulk_budget -= 1;
                    let n = [40u32, 900, 1030, 1100][t.idx(4)];
                    ops.push(C9Op::Bulk(t.idx(4), t.idx(keys) as u16, 1000, n));
                }
                3 => ops.push(C9Op::Submit(t.idx(4))),
                4 => ops.push(C9Op::Release(1 + t.idx(4) as u8, t.chance(180))),
                _ => ops.push(C9Op::Get(t.idx(keys) as u16)),
            }
        }
        Self { capacity, workers, keys, elems, grouping, ops }
    }

    pub fn pretty(&self) -> String { format!("{self:#?}") }
}

struct OpenBatch {
    tx: WriteBatch<MockKv>,
    /// creation index
    idx: usize,
}

fn key_of(op: &MapOp) -> String {
    match op {
        MapOp::PutA(k, _) | MapOp::DelA(k) => format!("a{k}"),
        MapOp::PutB(k, _) | MapOp::DelB(k) => format!("b{k}"),
        MapOp::PutX(k, _) | MapOp::DelX(k) => format!("x{k}"),
        MapOp::PutY(k, _) | MapOp::DelY(k) => format!("y{k}"),
        MapOp::SetIns(k, e) | MapOp::SetDel(k, e) => format!("s{k}/{e}"),
    }
}

async fn compare_key(
    maps: &Maps,
    model: &StoreModel,
    k: u16,
    when: &str,
) -> Option<String> {
    let a = maps.a.get(&k).await.map(|v| v.0);
    if a != model.a.get(&k).copied() {
        return Some(format!("{when}: SingleMap<ColA,ValA>.get({k}) = {a:?}, latest write is {:?}", model.a.get(&k)));
    }
    let b = maps.b.get(&k).await.map(|v| v.0);
    if b != model.b.get(&k).cloned() {
        return Some(format!("{when}: SingleMap<ColA,ValB>.get({k}) = {b:?}, latest write is {:?}", model.b.get(&k)));
    }
    let x = maps.d.get::<DynX>(&k).await.map(|v| v.0);
    if x != model.x.get(&k).copied() {
        return Some(format!("{when}: DynamicMap<ColD>.get::<DynX>({k}) = {x:?}, latest write is {:?}", model.x.get(&k)));
    }
    let y = maps.d.get::<DynY>(&k).await.map(|v| v.0);
    if y != model.y.get(&k).cloned() {
        return Some(format!("{when}: DynamicMap<ColD>.get::<DynY>({k}) = {y:?}, latest write is {:?}", model.y.get(&k)));
    }
    let got: Vec<u32> = maps.s.get(&k).await.collect();
    let set: BTreeSet<u32> = got.iter().copied().collect();
    let want = model.s.get(&k).cloned().unwrap_or_default();
    if set != want {
        let missing: Vec<_> = want.difference(&set).take(5).collect();
        let extra: Vec<_> = set.difference(&want).take(5).collect();
        return Some(format!(
            "{when}: KeyOfSetMap<ColS>.get({k}) has {} elements, latest writes give {} (missing {missing:?}, unexpected {extra:?})",
            set.len(),
            want.len()
        ));
    }
    None
}

pub fn run_c09(plan: &C9Plan) -> CaseResult {
    let mut cr = CaseResult::default();
    let store = Arc::new(Store::new());
    *store.grouping.lock() = plan.grouping;
    store.close_gate();
    let db = MockKv::new(store.clone(), Plugin::default());
    let engine = DbBacked::new(
        db,
        Configuration::builder()
            .cache_capacity(plan.capacity)
            .serialization_workers(plan.workers)
            .build(),
    );
    #[cfg(feature = "hooks")]
    let _ = qbice_storage::verif::take_registered_write_behind_stats();
    let wm = engine.new_write_manager();
    #[cfg(feature = "hooks")]
    let stats = qbice_storage::verif::take_registered_write_behind_stats().pop();
    let maps = Maps::new(&engine);
    let mut model = StoreModel::default();
    let mut open: Vec<OpenBatch> = Vec::new();
    let mut created = 0usize;
    let mut last_writer: BTreeMap<String, usize> = BTreeMap::new();
    let mut unflushed: BTreeSet<String> = BTreeSet::new();
    let mut submitted_keys: Vec<BTreeSet<String>> = Vec::new();
    let mut batch_keys: BTreeMap<usize, BTreeSet<String>> = BTreeMap::new();
    let mut dups = 0u64;
    let mut gets_after_eviction_risk = 0u64;
    let mut bulk_seen = false;

    // `ready` = number of batches the committer can take: the contiguous
    // prefix (in creation order) of batches that have all been submitted; an
    // older batch that is still open holds back every later one.
    let wait_notified = |store: &Store, ready: u64| {
        #[cfg(feature = "hooks")]
        if let Some(st) = &stats {
            let start = Instant::now();
            loop {
                let consumed = store.consumed.load(Ordering::SeqCst);
                let committed = store.committed_logical.load(Ordering::SeqCst);
                let idle = consumed == ready || store.blocked_at_gate();
                if idle && st.after_commit_done() == committed {
                    break;
                }
                if start.elapsed() > Duration::from_secs(5) {
                    break;
                }
                std::thread::sleep(Duration::from_micros(20));
            }
        }
        let _ = (store, ready);
    };
    let mut submitted_idx: BTreeSet<usize> = BTreeSet::new();
    let ready_of = |submitted_idx: &BTreeSet<usize>| -> u64 {
        let mut r = 0usize;
        while submitted_idx.contains(&r) {
            r += 1;
        }
        r as u64
    };

    let res: Option<String> = futures::executor::block_on(async {
        for (step, op) in plan.ops.iter().enumerate() {
            match op {
                C9Op::NewBatch => {
                    if open.len() < 4 {
                        open.push(OpenBatch { tx: wm.new_write_batch(), idx: created });
                        batch_keys.insert(created, BTreeSet::new());
                        created += 1;
                    }
                }
                C9Op::Write(bi, mop) => {
                    if open.is_empty() {
                        open.push(OpenBatch { tx: wm.new_write_batch(), idx: created });
                        batch_keys.insert(created, BTreeSet::new());
                        created += 1;
                    }
                    // precondition derived from the write manager: writes to
                    // one key are issued in the batches' creation order
                    let key = key_of(mop);
                    let min_idx = last_writer.get(&key).copied().unwrap_or(0);
                    let cands: Vec<usize> = (0..open.len())
                        .filter(|i| open[*i].idx >= min_idx)
                        .collect();
                    let slot = if cands.is_empty() {
                        open.push(OpenBatch { tx: wm.new_write_batch(), idx: created });
                        batch_keys.insert(created, BTreeSet::new());
                        created += 1;
                        open.len() - 1
                    } else {
                        cands[bi % cands.len()]
                    };
                    let ob = &mut open[slot];
                    maps.apply(mop, &mut ob.tx).await;
                    model.apply(mop);
                    last_writer.insert(key.clone(), ob.idx);
                    batch_keys.get_mut(&ob.idx).unwrap().insert(key.clone());
                    unflushed.insert(key);
                }
                C9Op::Bulk(bi, k, base, n) => {
                    if open.is_empty() {
                        open.push(OpenBatch { tx: wm.new_write_batch(), idx: created });
                        batch_keys.insert(created, BTreeSet::new());
                        created += 1;
                    }
                    bulk_seen = true;
                    // choose the newest open batch: satisfies the precondition
                    // for every element
                    let _ = bi;
                    let slot = (0..open.len()).max_by_key(|i| open[*i].idx).unwrap();
                    let ob = &mut open[slot];
                    for e in *base..*base + *n {
                        let mop = MapOp::SetIns(*k, e);
                        let key = key_of(&mop);
                        if last_writer.get(&key).copied().unwrap_or(0) > ob.idx {
                            continue;
                        }
                        maps.apply(&mop, &mut ob.tx).await;
                        model.apply(&mop);
                        last_writer.insert(key.clone(), ob.idx);
                        batch_keys.get_mut(&ob.idx).unwrap().insert(key.clone());
                        unflushed.insert(key);
                    }
                }
                C9Op::Submit(bi) => {
                    if !open.is_empty() {
                        let ob = open.remove(bi % open.len());
                        submitted_keys.push(batch_keys.remove(&ob.idx).unwrap_or_default());
                        submitted_idx.insert(ob.idx);
                        wm.submit_write_batch(ob.tx);
                    }
                }
                C9Op::Release(k, wait) => {
                    store.release(u64::from(*k));
                    if *wait {
                        wait_notified(&store, ready_of(&submitted_idx));
                        store.zero_permits();
                    }
                }
                C9Op::Get(k) => {
                    if unflushed.iter().any(|x| {
                        x[1..].split('/').next() == Some(&k.to_string())
                    }) {
                        gets_after_eviction_risk += 1;
                    }
                    let got: Vec<u32> = maps.s.get(k).await.collect();
                    let uniq: BTreeSet<u32> = got.iter().copied().collect();
                    dups += (got.len() - uniq.len()) as u64;
                    if let Some(v) =
                        compare_key(&maps, &model, *k, &format!("op #{step} Get"))
                            .await
                    {
                        return Some(v);
                    }
                }
            }
        }
        // submit what is still open (every created batch is submitted once)
        open.sort_by_key(|o| o.idx);
        for ob in open.drain(..) {
            submitted_idx.insert(ob.idx);
            wm.submit_write_batch(ob.tx);
        }
        // before the drain: everything must read back from memory
        for k in 0..plan.keys as u16 {
            if let Some(v) = compare_key(&maps, &model, k, "before drain").await {
                return Some(v);
            }
        }
        store.open_gate();
        wait_notified(&store, ready_of(&submitted_idx));
        // after the drain the caches may read through to the store
        for k in 0..plan.keys as u16 {
            if let Some(v) = compare_key(&maps, &model, k, "after drain").await {
                return Some(v);
            }
        }
        // and once more in reverse order (different eviction pattern)
        for k in (0..plan.keys as u16).rev() {
            if let Some(v) =
                compare_key(&maps, &model, k, "after drain, second pass").await
            {
                return Some(v);
            }
        }
        None
    });
    // every created batch must be submitted exactly once, also when the
    // stream stopped early at a violation
    open.sort_by_key(|o| o.idx);
    for ob in open.drain(..) {
        wm.submit_write_batch(ob.tx);
    }
    store.open_gate();
    drop(wm);
    cr.violation = res;
    cr.nontrivial = gets_after_eviction_risk > 0 && plan.keys as u64 > plan.capacity;
    if bulk_seen {
        cr.labels.push("set_crosses_spill_threshold");
    }
    if plan.capacity == 1 {
        cr.labels.push("capacity_1");
    }
    cr.labels.push("single_threaded_stream");
    cr.counters = vec![
        ("gets_with_unflushed_write_to_key", gets_after_eviction_risk),
        ("duplicate_elements_in_set_iteration(not judged)", dups),
        ("ops", plan.ops.len() as u64),
    ];
    if cr.nontrivial {
        cr.sample = Some(format!(
            "capacity={} workers={} keys={} grouping={:?} first ops: {:?}",
            plan.capacity,
            plan.workers,
            plan.keys,
            plan.grouping,
            plan.ops.iter().take(25).collect::<Vec<_>>()
        ));
    }
    cr
}

pub fn check_c09(tier: Tier) -> Report {
    let prop = "C09";
    let seed = env_seed();
    let mut report = Report { property: prop.into(), ..Report::default() };
    let mut ev = Evidence::new(
        prop,
        tier.name(),
        seed,
        "exploration",
        "case = op stream (20..180 ops, thorough 400) over CacheSingleMap (two value types in one column), CacheDynamicMap and CacheKeyOfSetMap on DbBacked<MockKv>: NewBatch (up to 4 open), Write into an open batch, Bulk inserts of 40..1100 elements, Submit in any order, Release(k physical commits) with or without waiting for the cache notifications, Get; cache capacity 1..16 << key universe; oracle = reference maps of all writes issued so far, compared at every Get, before the final drain, after it and once more in reverse key order; non-trivial = a Get on a key that has an unflushed write while the key universe exceeds the capacity; distinct = distinct case bytes",
    );
    ev.assumptions = vec![
        "generator precondition (derived from the write manager, see DESIGN.md C09): writes to one key/element through different open batches are issued in the batches' creation order".into(),
        "duplicates in set iteration are counted, not judged (the property speaks of the set's content)".into(),
    ];
    known::replay_regressions(prop, &mut report, &|doc| {
        let bytes: Vec<u8> = doc["bytes"].as_array().map(|a| a.iter().map(|x| x.as_u64().unwrap() as u8).collect()).unwrap_or_default();
        let tier = if doc["tier"].as_str() == Some("thorough") { Tier::Thorough } else { Tier::Quick };
        let mut t = Tape::new(&bytes);
        run_c09(&C9Plan::decode(&mut t, tier))
    });
    let cases = if tier == Tier::Thorough { 300_000 } else { 24_000 };
    let (stats, failure, _) = drive(seed, cases, 1200, &[], |bytes| {
        let mut t = Tape::new(bytes);
        run_c09(&C9Plan::decode(&mut t, tier))
    });
    ev.stats.merge(stats);
    if let Some(f) = failure {
        let mut t = Tape::new(&f.bytes);
        let plan = C9Plan::decode(&mut t, tier);
        let doc = serde_json::json!({
            "property": prop, "message": f.message, "tier": tier.name(),
            "bytes": f.bytes, "plan": plan.pretty(),
        });
        let path = write_replay(prop, &doc, &format!("{}\n{}", f.message, plan.pretty()));
        report.violations.push((path.display().to_string(), f.message));
        ev.violations += 1;
    }
    ev.write();
    report
}

pub fn replay_c09(path: &str) -> Report {
    let mut report = Report { property: "C09".into(), ..Report::default() };
    let doc: serde_json::Value =
        serde_json::from_str(&std::fs::read_to_string(path).expect("read")).expect("json");
    let bytes: Vec<u8> = doc["bytes"].as_array().unwrap().iter().map(|x| x.as_u64().unwrap() as u8).collect();
    let tier = if doc["tier"].as_str() == Some("thorough") { Tier::Thorough } else { Tier::Quick };
    let mut t = Tape::new(&bytes);
    let plan = C9Plan::decode(&mut t, tier);
    println!("{}", plan.pretty());
    if let Some(v) = run_c09(&plan).violation {
        report.violations.push((path.to_string(), v));
    }
    report
}
