//! Byte tape: the single source of generated choices.
//!
//! Every generated case is a byte string; all decoders read from a `Tape`.
//! Running out of bytes yields zeros (= the smallest continuation), so every
//! decoder loop is bounded by an explicit count. Indices are mapped
//! monotonically (`b * n >> 8/16`), never with `%`, so that byte-level
//! shrinking (drop chunks, lower bytes) maps to structurally smaller cases.

#[derive(Debug, Clone)]
pub struct Tape<'a> {
    data: &'a [u8],
    pos: usize,
}

impl<'a> Tape<'a> {
    #[must_use]
    pub const fn new(data: &'a [u8]) -> Self { Self { data, pos: 0 } }

    #[must_use]
    pub const fn is_empty(&self) -> bool { self.pos >= self.data.len() }

    #[must_use]
    pub const fn pos(&self) -> usize { self.pos }

    pub fn byte(&mut self) -> u8 {
        if self.pos < self.data.len() {
            let b = self.data[self.pos];
            self.pos += 1;
            b
        } else {
            0
        }
    }

    pub fn u16(&mut self) -> u16 {
        let hi = u16::from(self.byte());
        let lo = u16::from(self.byte());
        (hi << 8) | lo
    }

    /// Index in `0..n` (n >= 1), monotone in the byte value.
    pub fn idx(&mut self, n: usize) -> usize {
        if n <= 1 {
            return 0;
        }
        if n <= 256 {
            (usize::from(self.byte()) * n) >> 8
        } else {
            (usize::from(self.u16()) * n) >> 16
        }
    }

    /// Value in `lo..=hi`.
    pub fn range(&mut self, lo: usize, hi: usize) -> usize {
        lo + self.idx(hi - lo + 1)
    }

    /// True with probability `p/256`; false when the tape is exhausted.
    pub fn chance(&mut self, p: u16) -> bool {
        if self.is_empty() {
            return false;
        }
        u16::from(self.byte()) < p
    }

    /// Weighted choice: returns the index of the bucket the next byte falls in.
    pub fn weighted(&mut self, weights: &[u16]) -> usize {
        let total: u32 = weights.iter().map(|&w| u32::from(w)).sum();
        if total == 0 {
            return 0;
        }
        let b = u32::from(self.byte());
        let mut x = (b * total) >> 8;
        for (i, &w) in weights.iter().enumerate() {
            if x < u32::from(w) {
                return i;
            }
            x -= u32::from(w);
        }
        weights.len() - 1
    }

    /// The rest of the tape (used as a schedule tape).
    #[must_use]
    pub fn rest(&self) -> &'a [u8] {
        if self.pos >= self.data.len() { &[] } else { &self.data[self.pos..] }
    }
}
