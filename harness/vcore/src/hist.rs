//! Histories: sequences of input sessions, world changes, queries, restarts.

use std::fmt::Write as _;

use crate::{
    prog::{GenCfg, Kind, Program},
    tape::Tape,
};

#[derive(Clone, Debug, PartialEq, Eq)]
pub enum SessOp {
    Set(u32, Vec<i64>),
    /// set_input with the value the input already has
    SetSame(u32),
    /// update(): add delta to slot 0 (delta 0 = no-op update)
    Update(u32, i64),
    /// refresh::<Xt>()
    Refresh,
}

#[derive(Clone, Debug, PartialEq, Eq)]
pub enum Step {
    Session { ops: Vec<SessOp>, by_drop: bool },
    World(u32, Vec<i64>),
    Query(u32),
    /// several nodes requested at once: joined on one tracked engine, or each
    /// on its own tracked engine
    QueryMany { nodes: Vec<u32>, separate: bool },
    RepairTfc(u32),
    /// drop the current tracked engine; the next query creates a fresh one
    NewTracked,
    /// clean shutdown + reopen on the same store (C07)
    Restart,
    /// let the background writer commit `n` more physical batches (config B)
    Release(u8),
}

#[derive(Clone, Copy, Debug)]
pub struct HistCfg {
    pub min_steps: usize,
    pub max_steps: usize,
    pub allow_restart: bool,
    pub allow_release: bool,
    pub allow_many: bool,
}

impl HistCfg {
    #[must_use]
    pub const fn quick() -> Self {
        Self {
            min_steps: 4,
            max_steps: 40,
            allow_restart: false,
            allow_release: false,
            allow_many: true,
        }
    }
}

#[derive(Clone, Debug, PartialEq, Eq)]
pub struct Case {
    pub prog: Program,
    pub steps: Vec<Step>,
    /// configuration bytes (cache capacity, workers, grouping policy, ...)
    pub knobs: [u8; 4],
}

fn gen_vals(t: &mut Tape<'_>, n: usize) -> Vec<i64> {
    (0..n).map(|_| t.idx(6) as i64).collect()
}

impl Case {
    pub fn decode(t: &mut Tape<'_>, g: &GenCfg, h: &HistCfg) -> Self {
        let knobs = [t.byte(), t.byte(), t.byte(), t.byte()];
        let prog = Program::decode(t, g);
        let steps = decode_steps(t, &prog, h);
        Self { prog, steps, knobs }
    }

    #[must_use]
    pub fn pretty(&self) -> String {
        let mut s = String::new();
        let _ = writeln!(s, "knobs={:?}", self.knobs);
        s.push_str(&self.prog.pretty());
        for (i, st) in self.steps.iter().enumerate() {
            let _ = writeln!(s, "#{i}: {}", pretty_step(&self.prog, st));
        }
        s
    }
}

pub fn pretty_step(p: &Program, st: &Step) -> String {
    let nm = |n: u32| format!("{}{}", p.nodes[n as usize].kind.tag(), n);
    match st {
        Step::Session { ops, by_drop } => {
            let mut s = String::from("session{");
            for (i, o) in ops.iter().enumerate() {
                if i > 0 {
                    s.push_str("; ");
                }
                match o {
                    SessOp::Set(n, v) => {
                        let _ = write!(s, "set {}={:?}", nm(*n), v);
                    }
                    SessOp::SetSame(n) => {
                        let _ = write!(s, "set-same {}", nm(*n));
                    }
                    SessOp::Update(n, d) => {
                        let _ = write!(s, "update {}+={}", nm(*n), d);
                    }
                    SessOp::Refresh => s.push_str("refresh<Xt>"),
                }
            }
            s.push_str(if *by_drop { "} drop" } else { "} commit" });
            s
        }
        Step::World(n, v) => format!("world {}={:?}", nm(*n), v),
        Step::Query(n) => format!("query {}", nm(*n)),
        Step::QueryMany { nodes, separate } => format!(
            "query-many{} [{}]",
            if *separate { "(separate engines)" } else { "" },
            nodes.iter().map(|n| nm(*n)).collect::<Vec<_>>().join(",")
        ),
        Step::RepairTfc(n) => format!("repair-tfc {}", nm(*n)),
        Step::NewTracked => "new-tracked".into(),
        Step::Restart => "RESTART".into(),
        Step::Release(k) => format!("release {k}"),
    }
}

pub fn decode_steps(t: &mut Tape<'_>, prog: &Program, h: &HistCfg) -> Vec<Step> {
    let ins = prog.ids_of(|k| k == Kind::In);
    let xts = prog.ids_of(|k| k == Kind::Xt);
    let n = prog.nodes.len();
    let mut steps = Vec::new();
    // first session sets every input (implicit precondition of every caller in
    // the repository: the engine has no executor for unset inputs)
    steps.push(Step::Session {
        ops: ins
            .iter()
            .map(|&i| SessOp::Set(i, prog.nodes[i as usize].default.clone()))
            .collect(),
        by_drop: false,
    });
    let count = t.range(h.min_steps, h.max_steps);
    let mut queried: Vec<u32> = Vec::new();
    for _ in 0..count {
        if t.is_empty() {
            break;
        }
        let w = [
            70u16, // Session
            if xts.is_empty() { 0 } else { 14 }, // World
            100, // Query
            if h.allow_many { 22 } else { 0 }, // QueryMany
            8,  // RepairTfc
            16, // NewTracked
            if h.allow_restart { 18 } else { 0 },
            if h.allow_release { 18 } else { 0 },
        ];
        let pick_node = |t: &mut Tape<'_>, queried: &Vec<u32>| -> u32 {
            if !queried.is_empty() && t.chance(140) {
                queried[t.idx(queried.len())]
            } else if t.chance(128) {
                // prefer high ids (roots)
                (n - 1 - t.idx(n.min(4))) as u32
            } else {
                t.idx(n) as u32
            }
        };
        match t.weighted(&w) {
            0 => {
                let k = t.range(1, 4);
                let mut ops = Vec::new();
                for _ in 0..k {
                    let ow = [
                        110u16,
                        30,
                        50,
                        if xts.is_empty() { 0 } else { 36 },
                    ];
                    match t.weighted(&ow) {
                        0 => {
                            let i = ins[t.idx(ins.len())];
                            let v = gen_vals(t, prog.nslots(i));
                            ops.push(SessOp::Set(i, v));
                        }
                        1 => ops.push(SessOp::SetSame(ins[t.idx(ins.len())])),
                        2 => {
                            let i = ins[t.idx(ins.len())];
                            let d = [0i64, 1, -1, 2][t.idx(4)];
                            ops.push(SessOp::Update(i, d));
                        }
                        _ => ops.push(SessOp::Refresh),
                    }
                }
                steps.push(Step::Session { ops, by_drop: t.chance(70) });
                // an edit is followed by re-queries of previously queried nodes
                if !queried.is_empty() && t.chance(200) {
                    let q = queried[t.idx(queried.len())];
                    steps.push(Step::Query(q));
                }
            }
            1 => {
                let x = xts[t.idx(xts.len())];
                let v = gen_vals(t, prog.nslots(x));
                steps.push(Step::World(x, v));
            }
            2 => {
                let q = pick_node(t, &queried);
                if !queried.contains(&q) {
                    queried.push(q);
                }
                steps.push(Step::Query(q));
            }
            3 => {
                let k = t.range(2, 5);
                let nodes: Vec<u32> =
                    (0..k).map(|_| pick_node(t, &queried)).collect();
                for q in &nodes {
                    if !queried.contains(q) {
                        queried.push(*q);
                    }
                }
                steps.push(Step::QueryMany { nodes, separate: t.chance(128) });
            }
            4 => steps.push(Step::RepairTfc(pick_node(t, &queried))),
            5 => steps.push(Step::NewTracked),
            6 => steps.push(Step::Restart),
            _ => steps.push(Step::Release(t.range(1, 6) as u8)),
        }
    }
    steps
}
