//! Histories: sequences of input sessions, world changes, queries, restarts.

use std::fmt::Write as _;

use crate::{
    prog::{GenCfg, Kind, Program},
    tape::Tape,
};

#[derive(Clone, Debug, PartialEq, Eq)]
pub enum SessOp {
    Set(u32, Vec<i64>),
    /// set_input with the value the input already has
    SetSame(u32),
    /// update(): add delta to slot 0 (delta 0 = no-op update)
    Update(u32, i64),
    /// refresh::<Xt>()
    Refresh,
}

#[derive(Clone, Debug, PartialEq, Eq)]
pub enum Step {
    Session { ops: Vec<SessOp>, by_drop: bool },
    World(u32, Vec<i64>),
    Query(u32),
    /// several nodes requested at once: joined on one tracked engine, or each
    /// on its own tracked engine
    QueryMany { nodes: Vec<u32>, separate: bool },
    RepairTfc(u32),
    /// drop the current tracked engine; the next query creates a fresh one
    NewTracked,
    /// clean shutdown + reopen on the same store (C07)
    Restart,
    /// let the background writer commit `n` more physical batches (config B)
    Release(u8),
}

#[derive(Clone, Copy, Debug)]
pub struct HistCfg {
    pub min_steps: usize,
    pub max_steps: usize,
    pub allow_restart: bool,
    pub allow_release: bool,
    pub allow_many: bool,
}

impl HistCfg {
    #[must_use]
    pub const fn quick() -> Self {
        Self {
            min_steps: 4,
            max_steps: 40,
            allow_restart: false,
            allow_release: false,
            allow_many: true,
        }
    }
}

#[derive(Clone, Debug, PartialEq, Eq)]
pub struct Case {
    pub prog: Program,
    pub steps: Vec<Step>,
    /// configuration bytes (cache capacity, workers, grouping policy, ...)
    pub knobs: [u8; 4],
}

fn gen_vals(t: &mut Tape<'_>, n: usize) -> Vec<i64> {
    (0..n).map(|_| t.idx(6) as i64).collect()
}

impl Case {
    pub fn decode(t: &mut Tape<'_>, g: &GenCfg, h: &HistCfg) -> Self {
        let knobs = [t.byte(), t.byte(), t.byte(), t.byte()];
        let prog = Program::decode(t, g);
        let steps = decode_steps(t, &prog, h);
        Self { prog, steps, knobs }
    }

    #[must_use]
    pub fn pretty(&self) -> String {
        let mut s = String::new();
        let _ = writeln!(s, "knobs={:?}", self.knobs);
        s.push_str(&self.prog.pretty());
        for (i, st) in self.steps.iter().enumerate() {
            let _ = writeln!(s, "#{i}: {}", pretty_step(&self.prog, st));
        }
        s
    }
}

pub fn pretty_step(p: &Program, st: &Step) -> String {
    let nm = |n: u32| format!("{}{}", p.nodes[n as usize].kind.tag(), n);
    match st {
        Step::Session { ops, by_drop } => {
            let mut s = String::from("session{");
            for (i, o) in ops.iter().enumerate() {
                if i > 0 {
                    s.push_str("; ");
                }
                match o {
                    SessOp::Set(n, v) => {
                        let _ = write!(s, "set {}={:?}", nm(*n), v);
                    }
                    SessOp::SetSame(n) => {
                        let _ = write!(s, "set-same {}", nm(*n));
                    }
                    SessOp::Update(n, d) => {
                        let _ = write!(s, "update {}+={}", nm(*n), d);
                    }
                    SessOp::Refresh => s.push_str("refresh<Xt>"),
                }
            }
            s.push_str(if *by_drop { "} drop" } else { "} commit" });
            s
        }
        Step::World(n, v) => format!("world {}={:?}", nm(*n), v),
        Step::Query(n) => format!("query {}", nm(*n)),
        Step::QueryMany { nodes, separate } => format!(
            "query-many{} [{}]",
            if *separate { "(separate engines)" } else { "" },
            nodes.iter().map(|n| nm(*n)).collect::<Vec<_>>().join(",")
        ),
        Step::RepairTfc(n) => format!("repair-tfc {}", nm(*n)),
        Step::NewTracked => "new-tracked".into(),
        Step::Restart => "RESTART".into(),
        Step::Release(k) => format!("release {k}"),
    }
}

pub fn decode_steps(t: &mut Tape<'_>, prog: &Program, h: &HistCfg) -> Vec<Step> {
    let ins = prog.ids_of(|k| k == Kind::In);
    let xts = prog.ids_of(|k| k == Kind::Xt);
    let n = prog.nodes.len();
    let mut steps = Vec::new();
    // first session sets every input (implicit precondition of every caller in
    // the repository: the engine has no executor for unset inputs)
    steps.push(Step::Session {
        ops: ins
            .iter()
            .map(|&i| SessOp::Set(i, prog.nodes[i as usize].default.clone()))
            .collect(),
        by_drop: false,
    });
    let count = t.range(h.min_steps, h.max_steps);
    let mut queried: Vec<u32> = Vec::new();
    // focused histories: one root is requested again and again, nothing else
    // is, and every edit is a single small change. Staleness that an
    // intermediate request of a node in the middle would repair stays visible.
    let focus: Option<u32> = if t.chance(70) {
        Some(prog.queryable((n - 1 - t.idx(n.min(6))) as u32))
    } else {
        None
    };
    for _ in 0..count {
        if t.is_empty() {
            break;
        }
        if let Some(root) = focus {
            if t.chance(215) {
                if t.chance(120) {
                    let i = ins[t.idx(ins.len())];
                    let op = if t.chance(128) {
                        SessOp::Update(i, [1i64, -1, 2][t.idx(3)])
                    } else {
                        SessOp::Set(i, gen_vals(t, prog.nslots(i)))
                    };
                    steps.push(Step::Session { ops: vec![op], by_drop: false });
                }
                if !queried.contains(&root) {
                    queried.push(root);
                }
                steps.push(Step::Query(root));
                continue;
            }
        }
        let w = [
            70u16, // Session
            if xts.is_empty() { 0 } else { 14 }, // World
            100, // Query
            if h.allow_many { 22 } else { 0 }, // QueryMany
            8,  // RepairTfc
            16, // NewTracked
            if h.allow_restart { 18 } else { 0 },
            if h.allow_release { 18 } else { 0 },
        ];
        let pick_node = |t: &mut Tape<'_>, queried: &Vec<u32>| -> u32 {
            let y = if !queried.is_empty() && t.chance(140) {
                queried[t.idx(queried.len())]
            } else if t.chance(128) {
                // prefer high ids (roots)
                (n - 1 - t.idx(n.min(4))) as u32
            } else {
                t.idx(n) as u32
            };
            // partial nodes are only ever read under their guard
            prog.queryable(y)
        };
        match t.weighted(&w) {
            0 => {
                let k = t.range(1, 4);
                let mut ops = Vec::new();
                for _ in 0..k {
                    let ow = [
                        110u16,
                        30,
                        50,
                        if xts.is_empty() { 0 } else { 36 },
                    ];
                    match t.weighted(&ow) {
                        0 => {
                            let i = ins[t.idx(ins.len())];
                            let v = gen_vals(t, prog.nslots(i));
                            ops.push(SessOp::Set(i, v));
                        }
                        1 => ops.push(SessOp::SetSame(ins[t.idx(ins.len())])),
                        2 => {
                            let i = ins[t.idx(ins.len())];
                            let d = [0i64, 1, -1, 2][t.idx(4)];
                            ops.push(SessOp::Update(i, d));
                        }
                        _ => ops.push(SessOp::Refresh),
                    }
                }
                steps.push(Step::Session { ops, by_drop: t.chance(70) });
                // an edit is followed by re-queries of previously queried nodes
                if !queried.is_empty() && t.chance(200) {
                    let q = queried[t.idx(queried.len())];
                    steps.push(Step::Query(q));
                }
            }
            1 => {
                let x = xts[t.idx(xts.len())];
                let v = gen_vals(t, prog.nslots(x));
                steps.push(Step::World(x, v));
            }
            2 => {
                let q = pick_node(t, &queried);
                if !queried.contains(&q) {
                    queried.push(q);
                }
                steps.push(Step::Query(q));
            }
            3 => {
                let k = t.range(2, 5);
                let nodes: Vec<u32> =
                    (0..k).map(|_| pick_node(t, &queried)).collect();
                for q in &nodes {
                    if !queried.contains(q) {
                        queried.push(*q);
                    }
                }
                steps.push(Step::QueryMany { nodes, separate: t.chance(128) });
            }
            4 => steps.push(Step::RepairTfc(pick_node(t, &queried))),
            5 => steps.push(Step::NewTracked),
            6 => steps.push(Step::Restart),
            _ => steps.push(Step::Release(t.range(1, 6) as u8)),
        }
    }
    steps
}

// ---------------------------------------------------------------------------
// Structured (JSON) form of a case: replay files stay valid when the byte
// decoder / generator changes.
// ---------------------------------------------------------------------------

use serde_json::{Value, json};

use crate::prog::{Expr, Node};

fn pairs_to_json(ts: &[(u32, u8)]) -> Value {
    Value::Array(ts.iter().map(|(n, s)| json!([n, s])).collect())
}

fn pairs_from_json(v: &Value) -> Vec<(u32, u8)> {
    v.as_array()
        .map(|a| {
            a.iter()
                .map(|p| {
                    (p[0].as_u64().unwrap_or(0) as u32, p[1].as_u64().unwrap_or(0) as u8)
                })
                .collect()
        })
        .unwrap_or_default()
}

pub fn expr_to_json(e: &Expr) -> Value {
    match e {
        Expr::Const(c) => json!({ "c": c }),
        Expr::Read(n, s) => json!({ "r": [n, s] }),
        Expr::Add(a, b) => json!({ "add": [expr_to_json(a), expr_to_json(b)] }),
        Expr::Mul(a, b) => json!({ "mul": [expr_to_json(a), expr_to_json(b)] }),
        Expr::Min(a, b) => json!({ "min": [expr_to_json(a), expr_to_json(b)] }),
        Expr::Mod(a, m) => json!({ "mod": [expr_to_json(a), m] }),
        Expr::If(c, a, b) => {
            json!({ "if": [expr_to_json(c), expr_to_json(a), expr_to_json(b)] })
        }
        Expr::Dyn(s, ts) => json!({ "dyn": [expr_to_json(s), pairs_to_json(ts)] }),
        Expr::Par(cs) => {
            json!({ "par": cs.iter().map(expr_to_json).collect::<Vec<_>>() })
        }
        Expr::Unord(ts) => json!({ "unord": pairs_to_json(ts) }),
        Expr::Spawned(ts) => json!({ "spawned": pairs_to_json(ts) }),
        Expr::Detached(n, s) => json!({ "detached": [n, s] }),
        Expr::Trap(n, s) => json!({ "trap": [n, s] }),
        Expr::Abandon(n, s, k) => json!({ "abandon": [n, s, k] }),
    }
}

pub fn expr_from_json(v: &Value) -> Expr {
    let o = v.as_object().expect("expr object");
    let (k, x) = o.iter().next().expect("expr key");
    let b = |i: usize| Box::new(expr_from_json(&x[i]));
    match k.as_str() {
        "c" => Expr::Const(x.as_i64().unwrap()),
        "r" => Expr::Read(x[0].as_u64().unwrap() as u32, x[1].as_u64().unwrap() as u8),
        "add" => Expr::Add(b(0), b(1)),
        "mul" => Expr::Mul(b(0), b(1)),
        "min" => Expr::Min(b(0), b(1)),
        "mod" => Expr::Mod(b(0), x[1].as_i64().unwrap()),
        "if" => Expr::If(b(0), b(1), b(2)),
        "dyn" => Expr::Dyn(b(0), pairs_from_json(&x[1])),
        "par" => Expr::Par(x.as_array().unwrap().iter().map(expr_from_json).collect()),
        "unord" => Expr::Unord(pairs_from_json(x)),
        "spawned" => Expr::Spawned(pairs_from_json(x)),
        "detached" => {
            Expr::Detached(x[0].as_u64().unwrap() as u32, x[1].as_u64().unwrap() as u8)
        }
        "trap" => Expr::Trap(x[0].as_u64().unwrap() as u32, x[1].as_u64().unwrap() as u8),
        "abandon" => Expr::Abandon(
            x[0].as_u64().unwrap() as u32,
            x[1].as_u64().unwrap() as u8,
            x[2].as_u64().unwrap() as u8,
        ),
        other => panic!("unknown expr key {other}"),
    }
}

fn kind_from(s: &str) -> Kind {
    match s {
        "In" => Kind::In,
        "Xt" => Kind::Xt,
        "Nq" => Kind::Nq,
        "Fw" => Kind::Fw,
        "Pj" => Kind::Pj,
        "Cy" => Kind::Cy,
        "CyF" => Kind::CyF,
        o => panic!("unknown kind {o}"),
    }
}

pub fn program_to_json(p: &Program) -> Value {
    Value::Array(
        p.nodes
            .iter()
            .map(|n| {
                json!({
                    "k": n.kind.tag(),
                    "slots": n.slots.iter().map(expr_to_json).collect::<Vec<_>>(),
                    "default": n.default,
                })
            })
            .collect(),
    )
}

pub fn program_from_json(v: &Value) -> Program {
    Program {
        nodes: v
            .as_array()
            .expect("program array")
            .iter()
            .map(|n| Node {
                kind: kind_from(n["k"].as_str().unwrap()),
                slots: n["slots"]
                    .as_array()
                    .unwrap()
                    .iter()
                    .map(expr_from_json)
                    .collect(),
                default: n["default"]
                    .as_array()
                    .unwrap()
                    .iter()
                    .map(|x| x.as_i64().unwrap())
                    .collect(),
            })
            .collect(),
    }
}

fn ints(v: &Value) -> Vec<i64> {
    v.as_array().unwrap().iter().map(|x| x.as_i64().unwrap()).collect()
}

pub fn step_to_json(s: &Step) -> Value {
    match s {
        Step::Session { ops, by_drop } => json!({
            "session": {
                "drop": by_drop,
                "ops": ops.iter().map(|o| match o {
                    SessOp::Set(n, v) => json!({"set": [n, v]}),
                    SessOp::SetSame(n) => json!({"same": n}),
                    SessOp::Update(n, d) => json!({"update": [n, d]}),
                    SessOp::Refresh => json!("refresh"),
                }).collect::<Vec<_>>()
            }
        }),
        Step::World(n, v) => json!({ "world": [n, v] }),
        Step::Query(n) => json!({ "query": n }),
        Step::QueryMany { nodes, separate } => {
            json!({ "many": { "nodes": nodes, "separate": separate } })
        }
        Step::RepairTfc(n) => json!({ "repair_tfc": n }),
        Step::NewTracked => json!("new_tracked"),
        Step::Restart => json!("restart"),
        Step::Release(k) => json!({ "release": k }),
    }
}

pub fn step_from_json(v: &Value) -> Step {
    if let Some(s) = v.as_str() {
        return match s {
            "new_tracked" => Step::NewTracked,
            "restart" => Step::Restart,
            o => panic!("unknown step {o}"),
        };
    }
    let o = v.as_object().unwrap();
    let (k, x) = o.iter().next().unwrap();
    match k.as_str() {
        "session" => Step::Session {
            by_drop: x["drop"].as_bool().unwrap_or(false),
            ops: x["ops"]
                .as_array()
                .unwrap()
                .iter()
                .map(|o| {
                    if o.as_str() == Some("refresh") {
                        return SessOp::Refresh;
                    }
                    let (k, x) = o.as_object().unwrap().iter().next().unwrap();
                    match k.as_str() {
                        "set" => SessOp::Set(x[0].as_u64().unwrap() as u32, ints(&x[1])),
                        "same" => SessOp::SetSame(x.as_u64().unwrap() as u32),
                        "update" => SessOp::Update(
                            x[0].as_u64().unwrap() as u32,
                            x[1].as_i64().unwrap(),
                        ),
                        o => panic!("unknown session op {o}"),
                    }
                })
                .collect(),
        },
        "world" => Step::World(x[0].as_u64().unwrap() as u32, ints(&x[1])),
        "query" => Step::Query(x.as_u64().unwrap() as u32),
        "many" => Step::QueryMany {
            nodes: x["nodes"]
                .as_array()
                .unwrap()
                .iter()
                .map(|n| n.as_u64().unwrap() as u32)
                .collect(),
            separate: x["separate"].as_bool().unwrap_or(false),
        },
        "repair_tfc" => Step::RepairTfc(x.as_u64().unwrap() as u32),
        "release" => Step::Release(x.as_u64().unwrap() as u8),
        o => panic!("unknown step {o}"),
    }
}

impl Case {
    #[must_use]
    pub fn to_json(&self) -> Value {
        json!({
            "knobs": self.knobs,
            "program": program_to_json(&self.prog),
            "steps": self.steps.iter().map(step_to_json).collect::<Vec<_>>(),
        })
    }

    #[must_use]
    pub fn from_json(v: &Value) -> Self {
        let k = v["knobs"].as_array().unwrap();
        Self {
            knobs: [
                k[0].as_u64().unwrap() as u8,
                k[1].as_u64().unwrap() as u8,
                k[2].as_u64().unwrap() as u8,
                k[3].as_u64().unwrap() as u8,
            ],
            prog: program_from_json(&v["program"]),
            steps: v["steps"].as_array().unwrap().iter().map(step_from_json).collect(),
        }
    }
}
