//! Sequential history interpreter with the from-scratch oracle (C01), the
//! justified-execution oracle (C03) and restart handling (C07).

use std::{
    collections::{BTreeMap, BTreeSet},
    sync::{Arc, atomic::Ordering},
};

use qbice::{Engine, SetInputResult, TrackedEngine};

use crate::{
    backend::Backend,
    hist::{SessOp, Step},
    prog::{Expr, Kind, Oracle, Program, Val},
    queries::{
        self, In, InvStatus, Shared, Xt, register_all, user_query,
        user_repair_tfc,
    },
};

#[derive(Debug, Clone)]
pub struct Violation {
    pub prop: &'static str,
    pub what: String,
}

#[derive(Debug, Default, Clone)]
pub struct Outcome {
    pub violations: Vec<Violation>,
    pub labels: BTreeSet<&'static str>,
    pub c01_nontrivial: bool,
    pub c03_nontrivial: bool,
    pub c07_nontrivial: bool,
    pub executions: usize,
    pub engine_aborted_starts: usize,
    pub quiesce_timeouts: usize,
    pub queries: usize,
    pub sessions: usize,
    pub restarts: usize,
    pub cutoffs: usize,
    pub kf1_defused_steps: usize,
}

impl Outcome {
    pub fn violate(&mut self, prop: &'static str, what: String) {
        if self.violations.len() < 8 {
            self.violations.push(Violation { prop, what });
        }
    }
    #[must_use]
    pub fn failed(&self, props: &[&str]) -> Option<&Violation> {
        self.violations.iter().find(|v| props.contains(&v.prop))
    }
}

#[derive(Debug, Default, Clone)]
pub struct Model {
    pub inputs: BTreeMap<u32, Val>,
    pub xt_frozen: BTreeMap<u32, Val>,
    pub world: BTreeMap<u32, Val>,
    pub epoch: u64,
    /// reads of the last completed invocation per node
    pub last_completed: BTreeMap<u32, Vec<(u32, Val)>>,
    pub completed_in_epoch: BTreeMap<(u32, u64), u32>,
    pub last_exec_epoch: BTreeMap<u32, u64>,
    pub leaf_changed_epoch: BTreeMap<u32, u64>,
    /// epoch in which a node's completed read set last differed from its
    /// previous one (or was first recorded)
    pub readset_change_epoch: BTreeMap<u32, u64>,
    /// history of values per input (for the "reverted" label)
    pub input_history: BTreeMap<u32, Vec<Val>>,
    /// nodes whose executor completed under a request that was then cut
    /// short (cancelled / unwound): the engine may or may not have published
    /// them. Only used to decide when the KF1 precondition may hold.
    pub publish_uncertain: BTreeSet<u32>,
    /// epoch in which a node was last reached by a completed, fault-free
    /// request (as the root or anywhere in the root's from-scratch closure):
    /// it was executed or verified then, so what it records about the
    /// firewalls below it was brought up to date in that epoch
    pub visited_epoch: BTreeMap<u32, u64>,
    /// firewalls/projections-bearing nodes that have been re-executed (second
    /// or later run): their change may still have a backward projection
    /// pending, which only a firewall repair (or a root that records them)
    /// carries out
    pub reexecuted: BTreeSet<u32>,
    /// per node: the firewalls that were below it when it was last reached by
    /// a completed request (a superset of what the engine recorded as its
    /// transitive firewall set then); the engine repairs those when the node
    /// is requested, whether or not the node still reaches them
    pub recorded_fw: BTreeMap<u32, BTreeSet<u32>>,
}

impl Model {
    pub fn leaf(&self, prog: &Program, n: u32) -> Val {
        match prog.nodes[n as usize].kind {
            Kind::In => self
                .inputs
                .get(&n)
                .cloned()
                .unwrap_or_else(|| Val::from(vec![queries::IN_SENTINEL])),
            _ => self
                .xt_frozen
                .get(&n)
                .or_else(|| self.world.get(&n))
                .cloned()
                .unwrap_or_else(|| Val::from(vec![0])),
        }
    }
}

#[derive(Debug, Clone, Copy, PartialEq, Eq)]
pub enum StepCtx {
    Query,
    SessionWithRefresh,
    Session,
    Other,
}

pub struct Runner<B: Backend> {
    pub backend: B,
    pub prog: Arc<Program>,
    pub sh: Arc<Shared>,
    pub engine: Option<Arc<Engine<B::C>>>,
    pub tracked: Option<TrackedEngine<B::C>>,
    pub model: Model,
    log_pos: usize,
    /// log indices of invocations that were still running when last judged
    still_running: Vec<usize>,
    pub out: Outcome,
    pub hasher_seed: u64,
    step_no: u64,
    pub check_c03: bool,
    queried: BTreeSet<u32>,
    // C07 bookkeeping
    recomputed_since_open: bool,
    restarted_after_recompute: bool,
    post_restart_hit: bool,
    post_restart_edit: bool,
    pending_release: Option<u64>,
    /// exclude known finding KF1 by construction (see DESIGN.md)
    pub defuse_kf1: bool,
    pub kf1_defused_steps: usize,
    /// when false, `process_log` only keeps the books (concurrent phases in
    /// which the model is not constant)
    pub judge_log: bool,
    /// executors unwound by a panic are expected (C05 panic faults)
    pub allow_unwound: bool,
}

fn has_expr(p: &Program, f: &dyn Fn(&Expr) -> bool) -> bool {
    fn walk(e: &Expr, f: &dyn Fn(&Expr) -> bool) -> bool {
        if f(e) {
            return true;
        }
        match e {
            Expr::Add(a, b) | Expr::Mul(a, b) | Expr::Min(a, b) => {
                walk(a, f) || walk(b, f)
            }
            Expr::Mod(a, _) => walk(a, f),
            Expr::If(c, a, b) => walk(c, f) || walk(a, f) || walk(b, f),
            Expr::Dyn(s, _) => walk(s, f),
            Expr::Par(cs) => cs.iter().any(|c| walk(c, f)),
            _ => false,
        }
    }
    p.nodes.iter().any(|n| n.slots.iter().any(|e| walk(e, f)))
}

impl<B: Backend> Runner<B> {
    pub fn new(backend: B, prog: Arc<Program>, hasher_seed: u64) -> Self {
        let sh = Shared::new(prog.clone());
        let mut model = Model::default();
        model.world = sh.world.lock().clone();
        let mut out = Outcome::default();
        for n in &prog.nodes {
            match n.kind {
                Kind::Fw => {
                    out.labels.insert("has_firewall");
                }
                Kind::Pj => {
                    out.labels.insert("has_projection");
                }
                Kind::Xt => {
                    out.labels.insert("has_external_input");
                }
                _ => {}
            }
        }
        for (i, n) in prog.nodes.iter().enumerate() {
            if n.kind == Kind::Pj
                && prog
                    .static_reads(i as u32)
                    .iter()
                    .any(|&c| prog.nodes[c as usize].kind == Kind::Pj)
            {
                out.labels.insert("projection_of_projection");
            }
        }
        if has_expr(&prog, &|e| matches!(e, Expr::Dyn(..))) {
            out.labels.insert("has_dyn_switch");
        }
        if has_expr(&prog, &|e| matches!(e, Expr::If(..))) {
            out.labels.insert("has_conditional_dep");
        }
        if has_expr(&prog, &|e| matches!(e, Expr::Unord(..))) {
            out.labels.insert("has_unordered_group");
        }
        if has_expr(&prog, &|e| matches!(e, Expr::Spawned(..))) {
            out.labels.insert("has_spawned_reads");
        }
        if has_expr(&prog, &|e| matches!(e, Expr::Par(..))) {
            out.labels.insert("has_par_reads");
        }
        Self {
            backend,
            prog,
            sh,
            engine: None,
            tracked: None,
            model,
            log_pos: 0,
            still_running: Vec::new(),
            out,
            hasher_seed,
            step_no: 0,
            check_c03: true,
            queried: BTreeSet::new(),
            recomputed_since_open: false,
            restarted_after_recompute: false,
            post_restart_hit: false,
            post_restart_edit: false,
            pending_release: None,
            defuse_kf1: true,
            kf1_defused_steps: 0,
            judge_log: true,
            allow_unwound: false,
        }
    }

    fn prev_closure(&self, roots: &[u32]) -> BTreeSet<u32> {
        let mut seen = BTreeSet::new();
        let mut stack: Vec<u32> = roots.to_vec();
        while let Some(m) = stack.pop() {
            if !seen.insert(m) {
                continue;
            }
            if let Some(prev) = self.model.last_completed.get(&m) {
                stack.extend(prev.iter().map(|x| x.0));
            }
        }
        seen
    }

    /// Known finding KF1 (DESIGN.md section 7): a stale node can be verified
    /// without its changed transitive firewalls having been repaired when the
    /// user-level root cannot know them (fresh root, a dependency edge that is
    /// new, or a read set below the root that changed since the root last
    /// ran). When that precondition may hold, the harness first requests the
    /// possibly stale, already computed firewalls as user-level roots, so the
    /// history continues behind the finding. Returns the firewalls to request.
    fn kf1_targets(&self, roots: &[u32]) -> Vec<u32> {
        // The engine repairs every firewall the roots recorded, whether or not
        // the roots still reach it: those firewalls are re-verified (and
        // possibly re-executed, gaining new edges) like roots of their own.
        let mut all_roots: Vec<u32> = roots.to_vec();
        for m in self.prev_closure(roots) {
            if matches!(self.prog.nodes[m as usize].kind, Kind::Fw | Kind::CyF)
                && !all_roots.contains(&m)
            {
                all_roots.push(m);
            }
        }
        // ... including what they recorded when they were last reached (the
        // nodes in between may have changed their reads since)
        let mut i = 0;
        while i < all_roots.len() {
            if let Some(fws) = self.model.recorded_fw.get(&all_roots[i]) {
                for f in fws {
                    if !all_roots.contains(f) {
                        all_roots.push(*f);
                    }
                }
            }
            i += 1;
        }
        let roots: &[u32] = &all_roots;
        let mut now_all = BTreeSet::new();
        let mut reads_now = BTreeMap::new();
        for r in roots {
            let (a, rd) = self.closure(*r);
            now_all.extend(a);
            reads_now.extend(rd);
        }
        let prev_all = self.prev_closure(roots);
        let mut natural = true;
        for r in roots {
            if self.prog.nodes[*r as usize].kind.is_leaf() {
                continue;
            }
            match self.model.last_exec_epoch.get(r) {
                None => natural = false,
                Some(_) if self.model.publish_uncertain.contains(r) => {
                    natural = false;
                }
                Some(&e_x) => {
                    // the root has not been reached since a read set below it
                    // changed (another root absorbed the change)
                    let e_r = self.model.visited_epoch.get(r).copied().unwrap_or(e_x).max(e_x);
                    for m in self.prev_closure(&[*r]) {
                        if self
                            .model
                            .readset_change_epoch
                            .get(&m)
                            .is_some_and(|&e| e > e_r)
                        {
                            natural = false;
                        }
                    }
                }
            }
        }
        for x in &now_all {
            if self.prog.nodes[*x as usize].kind.is_leaf() {
                continue;
            }
            match self.model.last_completed.get(x) {
                None => natural = false,
                Some(_) if self.model.publish_uncertain.contains(x) => {
                    natural = false;
                }
                Some(prev) => {
                    let old: BTreeSet<u32> = prev.iter().map(|c| c.0).collect();
                    if reads_now
                        .get(x)
                        .is_some_and(|rs| rs.iter().any(|c| !old.contains(c)))
                    {
                        natural = false;
                    }
                }
            }
        }
        if std::env::var_os("VERIF_TRACE_KF1").is_some() {
            eprintln!("   kf1: roots={roots:?} natural={natural} now_all={now_all:?} leaf_changed={:?} last_exec={:?}", self.model.leaf_changed_epoch, self.model.last_exec_epoch);
        }
        if natural {
            return Vec::new();
        }
        let cand: BTreeSet<u32> = now_all.union(&prev_all).copied().collect();
        let mut stale_firewall = false;
        for &f in &cand {
            if !matches!(self.prog.nodes[f as usize].kind, Kind::Fw | Kind::CyF) {
                continue;
            }
            let Some(&e_f) = self.model.last_exec_epoch.get(&f) else {
                continue;
            };
            // A firewall that was re-executed when it was reached through an
            // ordinary read (not through a firewall repair) keeps its backward
            // projection pending; the stale projections above it are the same
            // finding (KF1: nothing below a root that does not record the
            // firewall makes the engine catch up).
            if self.model.reexecuted.contains(&f) {
                stale_firewall = true;
            }
            let mut members = self.prev_closure(&[f]);
            members.extend(self.closure(f).0);
            if members.iter().any(|l| {
                self.model.leaf_changed_epoch.get(l).is_some_and(|&e| e > e_f)
            }) {
                stale_firewall = true;
            }
        }
        if !stale_firewall {
            return Vec::new();
        }
        // every already computed node below the roots gets its transitive
        // firewalls repaired through the public
        // `repair_transitive_firewall_callees` entry point (callees first)
        cand.into_iter()
            .filter(|n| self.model.last_exec_epoch.contains_key(n))
            .collect()
    }

    pub async fn defuse(&mut self, roots: &[u32]) {
        if !self.defuse_kf1 {
            return;
        }
        let targets = self.kf1_targets(roots);
        if targets.is_empty() {
            return;
        }
        self.kf1_defused_steps += 1;
        if std::env::var_os("VERIF_TRACE").is_some() {
            eprintln!("   defuse roots={roots:?} targets={targets:?}");
        }
        let p = self.prog.clone();
        for y in targets {
            let te = self.tracked().await;
            user_repair_tfc(&p, te, y).await;
            self.process_log(StepCtx::Query);
        }
    }

    /// ignore everything logged so far (used when a runner adopts an engine)
    pub fn sync_log_pos(&mut self) {
        self.log_pos = self.sh.log.lock().len();
        self.still_running.clear();
    }

    pub async fn open(&mut self) {
        let mut e = self.backend.open(self.hasher_seed).await;
        register_all(&mut e, &self.sh);
        self.engine = Some(Arc::new(e));
    }

    pub fn eval(&self, node: u32) -> Val {
        let m = &self.model;
        let p = &self.prog;
        let leaves = |n: u32| m.leaf(p, n);
        Oracle::new(p, &leaves).node(node)
    }

    /// every node in the from-scratch closure of a completed request has
    /// been executed or verified in the current epoch
    pub fn mark_visited(&mut self, roots: &[u32]) {
        let e = self.model.epoch;
        for r in roots {
            // a read that the executor may abandon half way guarantees no
            // visit of its target
            let visited: Vec<u32> = {
                let m = &self.model;
                let p = &self.prog;
                let leaves = |n: u32| m.leaf(p, n);
                let mut o = Oracle::new(p, &leaves);
                o.follow_abandoned = false;
                let _ = o.node(*r);
                o.memo.keys().copied().collect()
            };
            let below: BTreeSet<u32> = self
                .closure(*r)
                .0
                .into_iter()
                .filter(|x| matches!(self.prog.nodes[*x as usize].kind, Kind::Fw | Kind::CyF))
                .collect();
            for x in visited {
                self.model.visited_epoch.insert(x, e);
                self.model.recorded_fw.insert(x, below.clone());
            }
        }
    }

    /// does the from-scratch evaluation of `from` evaluate `target`?
    #[must_use]
    pub fn reaches(&self, from: u32, target: u32) -> bool {
        self.closure(from).0.contains(&target)
    }

    /// transitive read closure of `node` under the reference evaluation
    fn closure(&self, node: u32) -> (BTreeSet<u32>, BTreeMap<u32, Vec<u32>>) {
        let m = &self.model;
        let p = &self.prog;
        let leaves = |n: u32| m.leaf(p, n);
        let mut o = Oracle::new(p, &leaves);
        let _ = o.node(node);
        let all: BTreeSet<u32> = o.memo.keys().copied().collect();
        (all, o.reads)
    }

    pub async fn tracked(&mut self) -> &TrackedEngine<B::C> {
        if self.tracked.is_none() {
            let e = self.engine.as_ref().unwrap().clone();
            self.tracked = Some(e.tracked().await);
        }
        self.tracked.as_ref().unwrap()
    }

    pub async fn step(&mut self, st: &Step) {
        self.step_no += 1;
        self.sh.step.store(self.step_no, Ordering::SeqCst);
        match st {
            Step::Session { ops, by_drop } => self.session(ops, *by_drop).await,
            Step::World(x, v) => {
                let v = Val::from(v.clone());
                self.sh.world.lock().insert(*x, v.clone());
                self.model.world.insert(*x, v);
            }
            Step::Query(n) => self.query(*n).await,
            Step::QueryMany { nodes, separate } => {
                self.query_many(nodes, *separate).await;
            }
            Step::RepairTfc(n) => {
                self.defuse(&[*n]).await;
                let p = self.prog.clone();
                let te = self.tracked().await;
                user_repair_tfc(&p, te, *n).await;
                self.process_log(StepCtx::Query);
            }
            Step::NewTracked => {
                self.tracked = None;
            }
            Step::Restart => {
                if self.backend.persistent() {
                    self.restart().await;
                }
            }
            Step::Release(k) => {
                self.pending_release = Some(u64::from(*k));
            }
        }
        let rel = self.pending_release.take();
        if !self.backend.after_step(rel).await {
            self.out.quiesce_timeouts += 1;
        }
    }

    async fn session(&mut self, ops: &[SessOp], by_drop: bool) {
        self.tracked = None;
        self.out.sessions += 1;
        let engine = self.engine.as_ref().unwrap().clone();
        let mut s = engine.input_session().await;
        // The exclusive phase lock is held now, so every TrackedEngine clone
        // (tasks spawned by executors of an earlier, possibly cancelled query
        // included) is gone. What those stragglers executed while this call
        // was waiting belongs to the previous epoch: judge it against the
        // model as it was.
        self.process_log(StepCtx::Query);
        self.model.epoch += 1;
        self.sh.epoch.store(self.model.epoch, Ordering::SeqCst);
        let mut any_change = false;
        let mut has_refresh = false;
        for op in ops {
            match op {
                SessOp::Set(n, _) | SessOp::SetSame(n) | SessOp::Update(n, _) => {
                    let old = self.model.inputs.get(n).cloned();
                    let (new, res) = match op {
                        SessOp::Set(_, v) => {
                            let v = Val::from(v.clone());
                            let r = s.set_input(In(*n), v.clone()).await;
                            (v, r)
                        }
                        SessOp::SetSame(_) => {
                            let v = old.clone().unwrap_or_else(|| {
                                Val::from(self.prog.nodes[*n as usize].default.clone())
                            });
                            let r = s.set_input(In(*n), v.clone()).await;
                            (v, r)
                        }
                        SessOp::Update(_, d) => {
                            let dflt =
                                self.prog.nodes[*n as usize].default.clone();
                            let d = *d;
                            let f = move |cur: Option<Val>| -> Val {
                                let mut v: Vec<i64> = cur
                                    .map_or_else(|| dflt.clone(), |c| c.to_vec());
                                if let Some(x) = v.first_mut() {
                                    *x = x.wrapping_add(d);
                                }
                                Val::from(v)
                            };
                            let expect = f(old.clone());
                            let r = s.update(In(*n), &f).await;
                            (expect, r)
                        }
                        SessOp::Refresh => unreachable!(),
                    };
                    let expect = match &old {
                        None => SetInputResult::Fresh,
                        Some(o) if *o == new => SetInputResult::Unchanged,
                        Some(_) => SetInputResult::Updated,
                    };
                    if res != expect {
                        self.out.violate(
                            "C01",
                            format!(
                                "set_input/update on In{n} returned {res:?}, \
                                 expected {expect:?} (old={old:?} new={new:?})"
                            ),
                        );
                    }
                    if expect == SetInputResult::Updated {
                        any_change = true;
                        self.model.leaf_changed_epoch.insert(*n, self.model.epoch);
                        let hist = self.model.input_history.entry(*n).or_default();
                        if hist.contains(&new) {
                            self.out.labels.insert("input_changed_and_reverted");
                        }
                    }
                    self.model
                        .input_history
                        .entry(*n)
                        .or_default()
                        .push(new.clone());
                    self.model.inputs.insert(*n, new);
                }
                SessOp::Refresh => {
                    has_refresh = true;
                    s.refresh::<Xt>().await;
                    // every previously computed Xt node is re-read from the
                    // world
                    let xs: Vec<u32> =
                        self.model.xt_frozen.keys().copied().collect();
                    for x in xs {
                        let w = self.model.world.get(&x).cloned().unwrap();
                        if self.model.xt_frozen.get(&x) != Some(&w) {
                            any_change = true;
                            self.model
                                .leaf_changed_epoch
                                .insert(x, self.model.epoch);
                            self.out.labels.insert("refresh_changes_value");
                        } else {
                            self.out.labels.insert("refresh_without_change");
                        }
                        self.model.xt_frozen.insert(x, w);
                    }
                }
            }
        }
        if by_drop {
            self.out.labels.insert("session_committed_by_drop");
            drop(s);
        } else {
            s.commit().await;
        }
        if !any_change && self.model.epoch > 1 {
            self.out.labels.insert("noop_session");
        } else if self.restarted_after_recompute {
            self.post_restart_edit = true;
        }
        self.process_log(if has_refresh {
            StepCtx::SessionWithRefresh
        } else {
            StepCtx::Session
        });
        if !any_change && self.check_c03 {
            // a session that changes nothing dirties nothing
            let te = self.tracked().await;
            let d = te.get_dirtied_edges_count();
            if d != 0 {
                self.out.violate(
                    "C03",
                    format!("no-op session dirtied {d} edges"),
                );
            }
        }
    }

    fn pre_query_nontrivial(&mut self, node: u32) -> Vec<u32> {
        // nodes in the closure that were computed before and whose inputs
        // changed since their last execution
        let (all, reads) = self.closure(node);
        let mut affected = Vec::new();
        // leaves reachable per node
        fn leaves_of(
            n: u32,
            reads: &BTreeMap<u32, Vec<u32>>,
            seen: &mut BTreeSet<u32>,
            out: &mut BTreeSet<u32>,
        ) {
            if !seen.insert(n) {
                return;
            }
            match reads.get(&n) {
                None => {
                    out.insert(n);
                }
                Some(rs) => {
                    for r in rs {
                        leaves_of(*r, reads, seen, out);
                    }
                }
            }
        }
        for m in all {
            if self.prog.nodes[m as usize].kind.is_leaf() {
                continue;
            }
            let Some(&last) = self.model.last_exec_epoch.get(&m) else {
                continue;
            };
            let mut lv = BTreeSet::new();
            leaves_of(m, &reads, &mut BTreeSet::new(), &mut lv);
            if let Some(prev) = self.model.last_completed.get(&m) {
                for (c, _) in prev {
                    leaves_of(*c, &reads, &mut BTreeSet::new(), &mut lv);
                }
            }
            if lv.iter().any(|l| {
                self.model.leaf_changed_epoch.get(l).is_some_and(|&e| e > last)
            }) {
                affected.push(m);
            }
        }
        affected
    }

    async fn query(&mut self, node: u32) {
        self.out.queries += 1;
        self.defuse(&[node]).await;
        let affected = self.pre_query_nontrivial(node);
        let p = self.prog.clone();
        let before = self.sh.log.lock().len();
        let te = self.tracked().await;
        let v = user_query(&p, te, node).await;
        let expect = self.eval(node);
        if std::env::var_os("VERIF_TRACE").is_some() {
            eprintln!(
                "step {} query {} -> {:?} expect {:?}",
                self.step_no, node, v, expect
            );
        }
        if v != expect {
            self.out.violate(
                "C01",
                format!(
                    "query {}{} returned {:?}, from-scratch value is {:?} \
                     (step {})",
                    p.nodes[node as usize].kind.tag(),
                    node,
                    v,
                    expect,
                    self.step_no
                ),
            );
        }
        self.queried.insert(node);
        self.mark_visited(&[node]);
        // which of the affected nodes executed during this step?
        let executed: BTreeSet<u32> = {
            let log = self.sh.log.lock();
            log[before..].iter().map(|i| i.node).collect()
        };
        if !affected.is_empty() {
            self.out.c01_nontrivial = true;
            if affected.iter().any(|m| !executed.contains(m)) {
                self.out.c03_nontrivial = true;
                self.out.cutoffs += 1;
            }
        }
        if self.restarted_after_recompute
            && executed.is_empty()
            && !p.nodes[node as usize].kind.is_leaf()
            && self.model.last_exec_epoch.contains_key(&node)
        {
            self.post_restart_hit = true;
        }
        self.process_log(StepCtx::Query);
    }

    #[must_use]
    pub fn log_pos(&self) -> usize { self.log_pos }

    /// A fault-free query that is not a step of the generated history.
    pub async fn step_quiet_query(&mut self, node: u32) {
        self.query(node).await;
        self.tracked = None;
    }

    async fn query_many(&mut self, nodes: &[u32], separate: bool) {
        self.out.queries += nodes.len();
        self.out.labels.insert("query_many");
        self.defuse(nodes).await;
        let p = self.prog.clone();
        let vals: Vec<Val> = if separate {
            self.tracked = None;
            let mut tes = Vec::new();
            for _ in nodes {
                tes.push(self.engine.as_ref().unwrap().clone().tracked().await);
            }
            let futs = nodes
                .iter()
                .zip(tes.iter())
                .map(|(n, te)| user_query(&p, te, *n));
            futures::future::join_all(futs).await
        } else {
            let te = self.tracked().await;
            let futs = nodes.iter().map(|n| user_query(&p, te, *n));
            futures::future::join_all(futs).await
        };
        for (n, v) in nodes.iter().zip(vals) {
            let expect = self.eval(*n);
            if v != expect {
                self.out.violate(
                    "C01",
                    format!(
                        "query-many {}{} returned {:?}, from-scratch value is \
                         {:?} (step {})",
                        p.nodes[*n as usize].kind.tag(),
                        n,
                        v,
                        expect,
                        self.step_no
                    ),
                );
            }
            self.queried.insert(*n);
        }
        self.mark_visited(nodes);
        self.process_log(StepCtx::Query);
    }

    pub async fn restart(&mut self) {
        self.out.restarts += 1;
        self.tracked = None;
        self.backend.before_shutdown();
        let engine = self.engine.take().unwrap();
        let weak = Arc::downgrade(&engine);
        drop(engine);
        let mut spins = 0u32;
        while weak.strong_count() > 0 {
            tokio::task::yield_now().await;
            spins += 1;
            if spins > 100_000 {
                self.out.violate(
                    "C07",
                    "engine still referenced after dropping every handle"
                        .to_string(),
                );
                return;
            }
        }
        if let Some(gap) = self.backend.persistence_gap() {
            self.out.violate("C07", format!("persistence stalled: {gap}"));
        }
        if self.recomputed_since_open {
            self.restarted_after_recompute = true;
        }
        self.open().await;
    }

    /// Judge every executor invocation logged since the last call.
    pub fn process_log(&mut self, ctx: StepCtx) {
        let log = self.sh.log.lock();
        // Invocations that were still running when they were last looked at
        // (helpers spawned by an executor outlive a request that was cut
        // short) are judged once they have ended; until then they wait.
        let mut idxs: Vec<usize> = std::mem::take(&mut self.still_running);
        idxs.extend(self.log_pos..log.len());
        let mut waiting = Vec::new();
        let mut ended: Vec<&crate::queries::Invocation> = Vec::new();
        // seen before (as running): only its completion is new
        let mut seen_before: BTreeSet<usize> = BTreeSet::new();
        for i in idxs {
            if log[i].status == InvStatus::Running && i < self.log_pos {
                waiting.push(i);
            } else {
                if log[i].status == InvStatus::Running {
                    waiting.push(i);
                }
                if i < self.log_pos {
                    seen_before.insert(log[i].id);
                }
                ended.push(&log[i]);
            }
        }
        self.still_running = waiting;
        let new: &[&crate::queries::Invocation] = &ended;
        if std::env::var_os("VERIF_TRACE").is_some() {
            for inv in new {
                eprintln!(
                    "   step {} inv#{} {}{} {:?} reads={:?} result={:?}",
                    self.step_no,
                    inv.id,
                    self.prog.nodes[inv.node as usize].kind.tag(),
                    inv.node,
                    inv.status,
                    inv.reads,
                    inv.result
                );
            }
        }
        // pass 1: freeze external inputs executed in this step
        for inv in new {
            if self.prog.nodes[inv.node as usize].kind == Kind::Xt
                && inv.status == InvStatus::Completed
            {
                let first = !self.model.xt_frozen.contains_key(&inv.node);
                let legal = match ctx {
                    StepCtx::Query => first,
                    StepCtx::SessionWithRefresh => !first,
                    StepCtx::Session | StepCtx::Other => false,
                };
                if !legal && self.check_c03 && self.judge_log {
                    self.out.violate(
                        "C03",
                        format!(
                            "external-input executor Xt{} ran without first \
                             demand or refresh (ctx {:?}, step {})",
                            inv.node, ctx, self.step_no
                        ),
                    );
                }
                if let Some(r) = &inv.result {
                    if ctx == StepCtx::Query || first {
                        self.model.xt_frozen.insert(inv.node, r.clone());
                    }
                }
            }
        }
        let m = &self.model;
        let p = &self.prog;
        let leaves = |n: u32| m.leaf(p, n);
        let mut oracle = Oracle::new(p, &leaves);
        let mut viol: Vec<(&'static str, String)> = Vec::new();
        let mut updates: Vec<(u32, Vec<(u32, Val)>, u64)> = Vec::new();
        let mut last_completed = self.model.last_completed.clone();
        for inv in new {
            let recheck = seen_before.contains(&inv.id);
            if !recheck {
                self.out.executions += 1;
            }
            let kind = p.nodes[inv.node as usize].kind;
            if kind == Kind::In {
                viol.push((
                    "C01",
                    format!(
                        "engine executed input In{} although it was set",
                        inv.node
                    ),
                ));
                continue;
            }
            match inv.status {
                InvStatus::Unwound if self.allow_unwound => {}
                InvStatus::Unwound => viol.push((
                    "C01",
                    format!(
                        "executor {}{} was unwound by a panic in a fault-free \
                         acyclic history",
                        kind.tag(),
                        inv.node
                    ),
                )),
                InvStatus::Dropped | InvStatus::Running => {
                    if !recheck {
                        self.out.engine_aborted_starts += 1;
                    }
                }
                InvStatus::Completed => {}
            }
            // C01: every dependency read equals the from-scratch value
            for (callee, v) in &inv.reads {
                let expect = oracle.node(*callee);
                if *v != expect {
                    viol.push((
                        "C01",
                        format!(
                            "executor {}{} read {}{} = {:?}, from-scratch \
                             value is {:?} (step {})",
                            kind.tag(),
                            inv.node,
                            p.nodes[*callee as usize].kind.tag(),
                            callee,
                            v,
                            expect,
                            self.step_no
                        ),
                    ));
                }
            }
            if kind == Kind::Xt {
                continue;
            }
            // C03: the invocation must be justified (judged when it was
            // first seen)
            if !recheck {
                if let Some(prev) = last_completed.get(&inv.node) {
                    let justified = !self.check_c03
                        || prev
                            .iter()
                            .any(|(callee, seen)| oracle.node(*callee) != *seen);
                    if !justified {
                        viol.push((
                            "C03",
                            format!(
                                "executor {}{} re-ran although every value it \
                                 read last time is unchanged: {:?} (step {})",
                                kind.tag(),
                                inv.node,
                                prev.iter()
                                    .map(|(c, v)| format!("{c}={v:?}"))
                                    .collect::<Vec<_>>(),
                                self.step_no
                            ),
                        ));
                    }
                    if inv.status == InvStatus::Completed {
                        let a: BTreeSet<u32> = prev.iter().map(|x| x.0).collect();
                        let b: BTreeSet<u32> =
                            inv.reads.iter().map(|x| x.0).collect();
                        if a != b {
                            self.out.labels.insert("read_set_changed");
                        }
                    }
                    self.recomputed_since_open = true;
                }
            }
            if inv.status == InvStatus::Completed {
                last_completed.insert(inv.node, inv.reads.clone());
                updates.push((inv.node, inv.reads.clone(), inv.epoch));
            }
        }
        self.log_pos = log.len();
        drop(log);
        for (node, reads, _epoch) in updates {
            self.model.publish_uncertain.remove(&node);
            let e = self.model.epoch;
            let c = self.model.completed_in_epoch.entry((node, e)).or_insert(0);
            *c += 1;
            if *c > 1 && self.check_c03 {
                viol.push((
                    "C03",
                    format!(
                        "{}{} completed {} executions between two input \
                         sessions (step {})",
                        self.prog.nodes[node as usize].kind.tag(),
                        node,
                        *c,
                        self.step_no
                    ),
                ));
            }
            let new_set: BTreeSet<u32> = reads.iter().map(|x| x.0).collect();
            let changed = match self.model.last_completed.get(&node) {
                None => true,
                Some(prev) => {
                    prev.iter().map(|x| x.0).collect::<BTreeSet<u32>>() != new_set
                }
            };
            if changed {
                self.model.readset_change_epoch.insert(node, e);
            }
            if self.model.last_completed.contains_key(&node) {
                self.model.reexecuted.insert(node);
            }
            self.model.last_completed.insert(node, reads);
            self.model.last_exec_epoch.insert(node, e);
        }
        if self.judge_log {
            for (prop, what) in viol {
                self.out.violate(prop, what);
            }
        }
    }

    /// Final comparison of everything ever queried on a fresh tracked engine.
    pub async fn finish(&mut self) {
        self.tracked = None;
        let nodes: Vec<u32> = self.queried.iter().copied().collect();
        let p = self.prog.clone();
        for n in nodes {
            self.defuse(&[n]).await;
            let te = self.tracked().await;
            let v = user_query(&p, te, n).await;
            let expect = self.eval(n);
            if v != expect {
                self.out.violate(
                    "C01",
                    format!(
                        "final re-query {}{} returned {:?}, from-scratch value \
                         is {:?}",
                        p.nodes[n as usize].kind.tag(),
                        n,
                        v,
                        expect
                    ),
                );
            }
            self.process_log(StepCtx::Query);
        }
        self.out.c07_nontrivial = self.restarted_after_recompute
            && self.post_restart_hit
            && self.post_restart_edit;
    }

    /// Clean shutdown: drop all handles and wait for the engine to die.
    pub async fn shutdown(&mut self) {
        self.tracked = None;
        self.backend.before_shutdown();
        if let Some(engine) = self.engine.take() {
            let weak = Arc::downgrade(&engine);
            drop(engine);
            let mut spins = 0u32;
            while weak.strong_count() > 0 && spins < 100_000 {
                tokio::task::yield_now().await;
                spins += 1;
            }
            if weak.strong_count() == 0 {
                if let Some(gap) = self.backend.persistence_gap() {
                    self.out.violate("C07", format!("persistence stalled: {gap}"));
                }
            }
        }
    }
}

/// Run one sequential case to completion on the given backend.
pub async fn run_case<B: Backend>(
    backend: B,
    prog: Arc<Program>,
    steps: &[Step],
    hasher_seed: u64,
    check_c03: bool,
    defuse_kf1: bool,
) -> (Outcome, B) {
    let mut r = Runner::new(backend, prog, hasher_seed);
    r.check_c03 = check_c03;
    r.defuse_kf1 = defuse_kf1;
    r.open().await;
    for st in steps {
        r.step(st).await;
        if !r.out.violations.is_empty() {
            break;
        }
    }
    if r.out.violations.is_empty() {
        r.finish().await;
    }
    r.shutdown().await;
    r.out.kf1_defused_steps = r.kf1_defused_steps;
    (r.out, r.backend)
}
