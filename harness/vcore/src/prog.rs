//! Program DSL interpreted by the generic harness executors, its decoder from
//! the byte tape, a pretty printer, and the from-scratch reference evaluator.

use std::{collections::BTreeMap, fmt::Write as _, sync::Arc};

use crate::tape::Tape;

pub type Val = Arc<[i64]>;

#[derive(Clone, Copy, PartialEq, Eq, Debug, PartialOrd, Ord, Hash)]
pub enum Kind {
    In,
    Xt,
    Nq,
    Fw,
    Pj,
    /// Normal query with a declared cycle default (C06).
    Cy,
    /// Firewall query with a declared cycle default (C06).
    CyF,
}

impl Kind {
    #[must_use]
    pub const fn is_leaf(self) -> bool { matches!(self, Self::In | Self::Xt) }
    #[must_use]
    pub const fn tag(self) -> &'static str {
        match self {
            Self::In => "In",
            Self::Xt => "Xt",
            Self::Nq => "Nq",
            Self::Fw => "Fw",
            Self::Pj => "Pj",
            Self::Cy => "Cy",
            Self::CyF => "CyF",
        }
    }
}

#[derive(Clone, Debug, PartialEq, Eq)]
pub enum Expr {
    Const(i64),
    Read(u32, u8),
    Add(Box<Expr>, Box<Expr>),
    Mul(Box<Expr>, Box<Expr>),
    Min(Box<Expr>, Box<Expr>),
    Mod(Box<Expr>, i64),
    /// Lazy: only the taken branch is evaluated (conditional dependencies).
    If(Box<Expr>, Box<Expr>, Box<Expr>),
    /// The value of the selector picks which node is read.
    Dyn(Box<Expr>, Vec<(u32, u8)>),
    /// Children evaluated concurrently with `join_all`; result = sum.
    Par(Vec<Expr>),
    /// Reads inside start/end_unordered_callee_group, joined; result = sum.
    Unord(Vec<(u32, u8)>),
    /// Reads done from `tokio::spawn`ed helpers that hold a cloned
    /// `TrackedEngine`; awaited; result = sum.
    Spawned(Vec<(u32, u8)>),
    /// A read from a detached spawned helper whose value is ignored (0).
    Detached(u32, u8),
    /// Partial function: reads the slot and panics unless the value is truthy
    /// (a divisor that must not be zero). Only generated inside nodes whose
    /// every reader guards the read with `If(<the same slot>, ..)`, so a
    /// from-scratch evaluation never trips it.
    Trap(u32, u8),
    /// A read that the executor starts and abandons after `k` `Pending`s
    /// (a timeout / `select!` inside an executor); the value is ignored (0).
    /// If the read happens to complete first it is an ordinary read.
    Abandon(u32, u8, u8),
}

#[derive(Clone, Debug, PartialEq, Eq)]
pub struct Node {
    pub kind: Kind,
    pub slots: Vec<Expr>,
    /// `scc_value` for Cy/CyF nodes; initial value for In/Xt nodes.
    pub default: Vec<i64>,
}

#[derive(Clone, Debug, PartialEq, Eq, Default)]
pub struct Program {
    pub nodes: Vec<Node>,
}

#[derive(Clone, Copy, Debug)]
pub struct GenCfg {
    pub min_nodes: usize,
    pub max_nodes: usize,
    pub allow_xt: bool,
    /// false: only In / Nq nodes (no firewalls, hence no projections)
    pub allow_firewall: bool,
    pub allow_spawn: bool,
    pub allow_detached: bool,
    pub allow_unord: bool,
    /// guarded partial queries and abandoned reads (motif, see `decode`)
    pub allow_partial: bool,
    pub max_depth: usize,
}

impl GenCfg {
    #[must_use]
    pub const fn quick() -> Self {
        Self {
            min_nodes: 3,
            max_nodes: 24,
            allow_xt: true,
            allow_firewall: true,
            allow_spawn: true,
            allow_detached: false,
            allow_unord: true,
            allow_partial: true,
            max_depth: 3,
        }
    }
    #[must_use]
    pub const fn thorough() -> Self {
        Self { max_nodes: 80, ..Self::quick() }
    }
}

impl Program {
    /// Nodes of the given kinds with id < `below`.
    fn lower(&self, below: usize, pj_only: bool) -> Vec<u32> {
        (0..below)
            .filter(|&i| {
                (!pj_only || matches!(self.nodes[i].kind, Kind::Fw | Kind::Pj))
                    && !self.is_partial(i as u32)
            })
            .map(|i| i as u32)
            .collect()
    }

    /// Decode a random acyclic program (a node reads only lower ids;
    /// projections read only firewalls/projections; node 0 is an input).
    pub fn decode(t: &mut Tape<'_>, cfg: &GenCfg) -> Self {
        let n = t.range(cfg.min_nodes, cfg.max_nodes);
        let mut p = Self { nodes: Vec::with_capacity(n) };
        // number of leading leaf nodes
        let leaves = 1 + t.idx((n / 3).max(1));
        while p.nodes.len() < n {
            let i = p.nodes.len();
            let has_fw = p
                .nodes
                .iter()
                .any(|x| matches!(x.kind, Kind::Fw | Kind::Pj));
            // "firewall switch" motif: a twin of an existing firewall (same
            // expressions, hence always the same value), a normal query that
            // picks one of the two by an input, and a short chain of normal
            // queries above it. Flipping the selector changes which firewall
            // is reachable without changing any value on the way up.
            if i >= leaves && cfg.allow_firewall && t.chance(36) {
                let fws = p.ids_of(|k| k == Kind::Fw);
                let ins = p.ids_of(|k| k == Kind::In);
                if !fws.is_empty() && !ins.is_empty() {
                    let a = fws[t.idx(fws.len())];
                    let twin = p.nodes[a as usize].clone();
                    let slot = t.idx(twin.slots.len()) as u8;
                    p.nodes.push(twin);
                    let b = (p.nodes.len() - 1) as u32;
                    let sel = ins[t.idx(ins.len())];
                    p.nodes.push(Node {
                        kind: Kind::Nq,
                        slots: vec![Expr::Dyn(
                            Box::new(Expr::Read(sel, 0)),
                            vec![(a, slot), (b, slot)],
                        )],
                        default: Vec::new(),
                    });
                    for _ in 0..1 + t.idx(3) {
                        let prev = (p.nodes.len() - 1) as u32;
                        let add = t.idx(3) as i64;
                        p.nodes.push(Node {
                            kind: Kind::Nq,
                            slots: vec![Expr::Mod(
                                Box::new(Expr::Add(
                                    Box::new(Expr::Read(prev, 0)),
                                    Box::new(Expr::Const(add)),
                                )),
                                [5i64, 7, 100][t.idx(3)],
                            )],
                            default: Vec::new(),
                        });
                    }
                    continue;
                }
            }
            // "guarded partial query" motif: Z panics unless its guard input
            // is truthy; R reads Z only under that guard, next to a read that
            // it abandons half way (when reads suspend). Whatever the engine
            // re-verifies or re-executes, it must never run Z while the guard
            // is false: the recorded order of R's dependencies (guard before
            // Z) is what protects Z.
            if i >= leaves && cfg.allow_partial && t.chance(30) {
                let ins = p.ids_of(|k| k == Kind::In);
                let pool = p.lower(i, false);
                if !ins.is_empty() && !pool.is_empty() {
                    let g = ins[t.idx(ins.len())];
                    let extra = pick_read(t, &p, &pool);
                    p.nodes.push(Node {
                        kind: Kind::Nq,
                        slots: vec![Expr::Add(
                            Box::new(Expr::Trap(g, 0)),
                            Box::new(Expr::Read(extra.0, extra.1)),
                        )],
                        default: Vec::new(),
                    });
                    let z = (p.nodes.len() - 1) as u32;
                    let victim = pick_read(t, &p, &pool);
                    let other = pick_read(t, &p, &pool);
                    let guarded = Expr::If(
                        Box::new(Expr::Read(g, 0)),
                        Box::new(Expr::Read(z, 0)),
                        Box::new(Expr::Const(t.idx(3) as i64)),
                    );
                    let body = if t.chance(170) {
                        Expr::Par(vec![
                            Expr::Abandon(victim.0, victim.1, 1 + t.idx(3) as u8),
                            Expr::Add(Box::new(Expr::Read(other.0, other.1)), Box::new(guarded)),
                        ])
                    } else {
                        Expr::Add(Box::new(Expr::Read(other.0, other.1)), Box::new(guarded))
                    };
                    p.nodes.push(Node {
                        kind: Kind::Nq,
                        slots: vec![Expr::Mod(Box::new(body), [5i64, 7, 100][t.idx(3)])],
                        default: Vec::new(),
                    });
                    continue;
                }
            }
            let kind = if i < leaves {
                if i > 0 && cfg.allow_xt && t.chance(50) { Kind::Xt } else { Kind::In }
            } else {
                // weights: In Xt Nq Fw Pj
                let w = [
                    14u16,
                    if cfg.allow_xt { 8 } else { 0 },
                    90,
                    if cfg.allow_firewall { 64 } else { 0 },
                    if has_fw && cfg.allow_firewall { 70 } else { 0 },
                ];
                [Kind::In, Kind::Xt, Kind::Nq, Kind::Fw, Kind::Pj][t.weighted(&w)]
            };
            let nslots = match kind {
                Kind::Fw => 1 + t.weighted(&[60, 110, 86]),
                _ => 1 + t.weighted(&[170, 70, 16]),
            };
            let mut node = Node { kind, slots: Vec::new(), default: Vec::new() };
            if kind.is_leaf() {
                for _ in 0..nslots {
                    node.default.push(t.idx(6) as i64);
                }
            } else {
                let pool = p.lower(i, kind == Kind::Pj);
                for _ in 0..nslots {
                    let e = gen_expr(t, cfg, &p, &pool, cfg.max_depth, true);
                    // keep values small so "changed input, same result" is
                    // common
                    let e = if t.chance(150) {
                        let m = [2i64, 3, 5, 7, 100][t.idx(5)];
                        Expr::Mod(Box::new(e), m)
                    } else {
                        e
                    };
                    node.slots.push(e);
                }
            }
            p.nodes.push(node);
        }
        p
    }

    /// A node with a `Trap` in one of its expressions: it must only be read
    /// under its guard and is never requested from user level.
    #[must_use]
    pub fn is_partial(&self, node: u32) -> bool {
        fn has_trap(e: &Expr) -> bool {
            match e {
                Expr::Trap(..) => true,
                Expr::Add(a, b) | Expr::Mul(a, b) | Expr::Min(a, b) => has_trap(a) || has_trap(b),
                Expr::Mod(a, _) => has_trap(a),
                Expr::If(c, a, b) => has_trap(c) || has_trap(a) || has_trap(b),
                Expr::Dyn(s, _) => has_trap(s),
                Expr::Par(cs) => cs.iter().any(has_trap),
                _ => false,
            }
        }
        self.nodes[node as usize].slots.iter().any(has_trap)
    }

    /// The nearest node at or above `node` that may be requested from user
    /// level (a partial node is always followed by its guarded reader).
    #[must_use]
    pub fn queryable(&self, node: u32) -> u32 {
        let mut y = node;
        while (y as usize) < self.nodes.len() && self.is_partial(y) {
            y += 1;
        }
        if (y as usize) < self.nodes.len() { y } else { 0 }
    }

    #[must_use]
    pub fn nslots(&self, node: u32) -> usize {
        let n = &self.nodes[node as usize];
        if n.kind.is_leaf() { n.default.len() } else { n.slots.len() }
    }

    #[must_use]
    pub fn ids_of(&self, f: impl Fn(Kind) -> bool) -> Vec<u32> {
        self.nodes
            .iter()
            .enumerate()
            .filter(|(_, n)| f(n.kind))
            .map(|(i, _)| i as u32)
            .collect()
    }

    #[must_use]
    pub fn pretty(&self) -> String {
        let mut s = String::new();
        for (i, n) in self.nodes.iter().enumerate() {
            let _ = write!(s, "{}{}", n.kind.tag(), i);
            if n.kind.is_leaf() {
                let _ = write!(s, " init={:?}", n.default);
            } else {
                let _ = write!(s, " = [");
                for (k, e) in n.slots.iter().enumerate() {
                    if k > 0 {
                        s.push_str(", ");
                    }
                    pretty_expr(&mut s, self, e);
                }
                s.push(']');
                if !n.default.is_empty() {
                    let _ = write!(s, " scc={:?}", n.default);
                }
            }
            s.push('\n');
        }
        s
    }

    /// Static read targets that may appear in a node's expressions.
    #[must_use]
    pub fn static_reads(&self, node: u32) -> Vec<u32> {
        let mut out = Vec::new();
        for e in &self.nodes[node as usize].slots {
            collect_reads(e, &mut out);
        }
        out.sort_unstable();
        out.dedup();
        out
    }
}

fn collect_reads(e: &Expr, out: &mut Vec<u32>) {
    match e {
        Expr::Const(_) => {}
        Expr::Read(n, _) | Expr::Detached(n, _) | Expr::Trap(n, _) | Expr::Abandon(n, _, _) => {
            out.push(*n);
        }
        Expr::Add(a, b) | Expr::Mul(a, b) | Expr::Min(a, b) => {
            collect_reads(a, out);
            collect_reads(b, out);
        }
        Expr::Mod(a, _) => collect_reads(a, out),
        Expr::If(c, a, b) => {
            collect_reads(c, out);
            collect_reads(a, out);
            collect_reads(b, out);
        }
        Expr::Dyn(s, ts) => {
            collect_reads(s, out);
            out.extend(ts.iter().map(|x| x.0));
        }
        Expr::Par(cs) => {
            for c in cs {
                collect_reads(c, out);
            }
        }
        Expr::Unord(ts) | Expr::Spawned(ts) => {
            out.extend(ts.iter().map(|x| x.0));
        }
    }
}

fn pick_read(t: &mut Tape<'_>, p: &Program, pool: &[u32]) -> (u32, u8) {
    // bias towards recent nodes (chains) half of the time
    let i = if t.chance(128) && pool.len() > 2 {
        pool.len() - 1 - t.idx(pool.len().min(3))
    } else {
        t.idx(pool.len())
    };
    let n = pool[i];
    let s = t.idx(p.nslots(n)) as u8;
    (n, s)
}

fn gen_expr(
    t: &mut Tape<'_>,
    cfg: &GenCfg,
    p: &Program,
    pool: &[u32],
    depth: usize,
    top: bool,
) -> Expr {
    if pool.is_empty() {
        return Expr::Const(t.idx(4) as i64);
    }
    if depth == 0 {
        return if t.chance(40) {
            Expr::Const(t.idx(4) as i64)
        } else {
            let (n, s) = pick_read(t, p, pool);
            Expr::Read(n, s)
        };
    }
    // weights: Read Const Add Mul Min Mod If Dyn Par Unord Spawned Detached
    let w = [
        70u16,
        8,
        40,
        12,
        12,
        16,
        34,
        22,
        if top { 14 } else { 0 },
        if top && cfg.allow_unord { 14 } else { 0 },
        if top && cfg.allow_spawn { 8 } else { 0 },
        if top && cfg.allow_detached { 4 } else { 0 },
    ];
    let d = depth - 1;
    match t.weighted(&w) {
        0 => {
            let (n, s) = pick_read(t, p, pool);
            Expr::Read(n, s)
        }
        1 => Expr::Const(t.idx(4) as i64),
        2 => Expr::Add(
            Box::new(gen_expr(t, cfg, p, pool, d, top)),
            Box::new(gen_expr(t, cfg, p, pool, d, top)),
        ),
        3 => Expr::Mul(
            Box::new(gen_expr(t, cfg, p, pool, d, false)),
            Box::new(gen_expr(t, cfg, p, pool, d, false)),
        ),
        4 => Expr::Min(
            Box::new(gen_expr(t, cfg, p, pool, d, false)),
            Box::new(gen_expr(t, cfg, p, pool, d, false)),
        ),
        5 => Expr::Mod(
            Box::new(gen_expr(t, cfg, p, pool, d, top)),
            [2i64, 3, 5][t.idx(3)],
        ),
        6 => Expr::If(
            Box::new(gen_expr(t, cfg, p, pool, d.min(1), false)),
            Box::new(gen_expr(t, cfg, p, pool, d, top)),
            Box::new(gen_expr(t, cfg, p, pool, d, top)),
        ),
        7 => {
            let k = t.range(2, 4);
            let ts = (0..k).map(|_| pick_read(t, p, pool)).collect();
            Expr::Dyn(Box::new(gen_expr(t, cfg, p, pool, d.min(1), false)), ts)
        }
        8 => {
            let k = t.range(2, 4);
            Expr::Par(
                (0..k).map(|_| gen_expr(t, cfg, p, pool, d.min(1), false)).collect(),
            )
        }
        9 => {
            let k = t.range(2, 5);
            Expr::Unord((0..k).map(|_| pick_read(t, p, pool)).collect())
        }
        10 => {
            let k = t.range(1, 3);
            Expr::Spawned((0..k).map(|_| pick_read(t, p, pool)).collect())
        }
        _ => {
            let (n, s) = pick_read(t, p, pool);
            Expr::Detached(n, s)
        }
    }
}

fn rd(s: &mut String, p: &Program, n: u32, slot: u8) {
    let _ = write!(s, "{}{}.{}", p.nodes[n as usize].kind.tag(), n, slot);
}

fn pretty_list(s: &mut String, p: &Program, ts: &[(u32, u8)]) {
    for (i, (n, sl)) in ts.iter().enumerate() {
        if i > 0 {
            s.push(',');
        }
        rd(s, p, *n, *sl);
    }
}

pub fn pretty_expr(s: &mut String, p: &Program, e: &Expr) {
    match e {
        Expr::Const(c) => {
            let _ = write!(s, "{c}");
        }
        Expr::Read(n, sl) => rd(s, p, *n, *sl),
        Expr::Add(a, b) => bin(s, p, "+", a, b),
        Expr::Mul(a, b) => bin(s, p, "*", a, b),
        Expr::Min(a, b) => bin(s, p, "min", a, b),
        Expr::Mod(a, m) => {
            s.push('(');
            pretty_expr(s, p, a);
            let _ = write!(s, " % {m})");
        }
        Expr::If(c, a, b) => {
            s.push_str("if(");
            pretty_expr(s, p, c);
            s.push_str(" ? ");
            pretty_expr(s, p, a);
            s.push_str(" : ");
            pretty_expr(s, p, b);
            s.push(')');
        }
        Expr::Dyn(sel, ts) => {
            s.push_str("dyn(");
            pretty_expr(s, p, sel);
            s.push_str(" -> ");
            pretty_list(s, p, ts);
            s.push(')');
        }
        Expr::Par(cs) => {
            s.push_str("par(");
            for (i, c) in cs.iter().enumerate() {
                if i > 0 {
                    s.push_str(", ");
                }
                pretty_expr(s, p, c);
            }
            s.push(')');
        }
        Expr::Unord(ts) => {
            s.push_str("unord(");
            pretty_list(s, p, ts);
            s.push(')');
        }
        Expr::Spawned(ts) => {
            s.push_str("spawned(");
            pretty_list(s, p, ts);
            s.push(')');
        }
        Expr::Detached(n, sl) => {
            s.push_str("detached(");
            rd(s, p, *n, *sl);
            s.push(')');
        }
        Expr::Trap(n, sl) => {
            s.push_str("trap-unless(");
            rd(s, p, *n, *sl);
            s.push(')');
        }
        Expr::Abandon(n, sl, k) => {
            s.push_str("abandon(");
            rd(s, p, *n, *sl);
            let _ = write!(s, " after {k} pending)");
        }
    }
}

fn bin(s: &mut String, p: &Program, op: &str, a: &Expr, b: &Expr) {
    s.push('(');
    pretty_expr(s, p, a);
    let _ = write!(s, " {op} ");
    pretty_expr(s, p, b);
    s.push(')');
}

// ---------------------------------------------------------------------------
// Reference evaluator ("from scratch": no graph, no incremental state; the
// memo lives for one evaluation only).
// ---------------------------------------------------------------------------

pub fn slot_of(v: &[i64], slot: u8) -> i64 {
    if v.is_empty() { 0 } else { v[usize::from(slot) % v.len()] }
}

pub const TRAP_SENTINEL: i64 = i64::MIN / 3;

pub fn truthy(v: i64) -> bool { v.rem_euclid(2) == 1 }

pub fn dyn_index(v: i64, len: usize) -> usize {
    v.rem_euclid(len as i64) as usize
}

pub struct Oracle<'a> {
    pub prog: &'a Program,
    /// leaf values: committed inputs for In, frozen-or-world values for Xt
    pub leaves: &'a dyn Fn(u32) -> Val,
    pub memo: BTreeMap<u32, Val>,
    /// per node: the reads (callee) performed by the reference evaluation
    pub reads: BTreeMap<u32, Vec<u32>>,
    /// follow reads that the executor may abandon half way (default). Off:
    /// only what a request certainly reaches is evaluated.
    pub follow_abandoned: bool,
}

impl<'a> Oracle<'a> {
    pub fn new(prog: &'a Program, leaves: &'a dyn Fn(u32) -> Val) -> Self {
        Self { prog, leaves, memo: BTreeMap::new(), reads: BTreeMap::new(), follow_abandoned: true }
    }

    pub fn node(&mut self, n: u32) -> Val {
        if let Some(v) = self.memo.get(&n) {
            return v.clone();
        }
        let node = &self.prog.nodes[n as usize];
        let v: Val = if node.kind.is_leaf() {
            (self.leaves)(n)
        } else {
            let mut reads = Vec::new();
            let out: Vec<i64> =
                node.slots.iter().map(|e| self.expr(e, &mut reads)).collect();
            self.reads.insert(n, reads);
            out.into()
        };
        self.memo.insert(n, v.clone());
        v
    }

    fn read(&mut self, n: u32, s: u8, reads: &mut Vec<u32>) -> i64 {
        reads.push(n);
        let v = self.node(n);
        slot_of(&v, s)
    }

    fn expr(&mut self, e: &Expr, reads: &mut Vec<u32>) -> i64 {
        match e {
            Expr::Const(c) => *c,
            Expr::Read(n, s) => self.read(*n, *s, reads),
            Expr::Add(a, b) => {
                self.expr(a, reads).wrapping_add(self.expr(b, reads))
            }
            Expr::Mul(a, b) => {
                self.expr(a, reads).wrapping_mul(self.expr(b, reads))
            }
            Expr::Min(a, b) => self.expr(a, reads).min(self.expr(b, reads)),
            Expr::Mod(a, m) => self.expr(a, reads).rem_euclid(*m),
            Expr::If(c, a, b) => {
                if truthy(self.expr(c, reads)) {
                    self.expr(a, reads)
                } else {
                    self.expr(b, reads)
                }
            }
            Expr::Dyn(sel, ts) => {
                let i = dyn_index(self.expr(sel, reads), ts.len());
                self.read(ts[i].0, ts[i].1, reads)
            }
            Expr::Par(cs) => cs
                .iter()
                .fold(0i64, |acc, c| acc.wrapping_add(self.expr(c, reads))),
            Expr::Unord(ts) | Expr::Spawned(ts) => ts.iter().fold(0i64, |acc, x| {
                acc.wrapping_add(self.read(x.0, x.1, reads))
            }),
            Expr::Detached(n, s) => {
                let _ = self.read(*n, *s, reads);
                0
            }
            Expr::Trap(n, s) => {
                let v = self.read(*n, *s, reads);
                // only reached when a partial node is evaluated outside its
                // guard (comparisons of old read sets): a value no run has
                if truthy(v) { v } else { TRAP_SENTINEL }
            }
            // the value is ignored, but the node may be reached (when the
            // read completes before it is abandoned it is an ordinary read)
            Expr::Abandon(n, s, _) => {
                if self.follow_abandoned {
                    let _ = self.read(*n, *s, reads);
                }
                0
            }
        }
    }
}
