//! Known findings (`/verif/known_findings.json`, committed; never written at
//! run time).
//!
//! Entry: `{property, status: "known"|"fixed", signature, what, replay?,
//! config?, commit?}`. A *known* finding is re-checked by its replay on every
//! run (prints `KNOWN-FINDING:` while it still fails) and its exact signature
//! is tolerated by the generated search so the search continues behind it. A
//! *fixed* entry suppresses nothing: its replay is a plain regression case.

use crate::{Report, driver::CaseResult};

#[derive(Debug, Clone)]
pub struct Finding {
    pub property: String,
    pub status: String,
    pub signature: String,
    pub what: String,
    pub replay: Option<String>,
    pub config: String,
}

pub fn load() -> Vec<Finding> {
    let Ok(txt) = std::fs::read_to_string("/verif/known_findings.json") else {
        return Vec::new();
    };
    let Ok(v) = serde_json::from_str::<serde_json::Value>(&txt) else {
        eprintln!("known_findings.json does not parse");
        return Vec::new();
    };
    let s = |e: &serde_json::Value, k: &str| {
        e.get(k).and_then(|x| x.as_str()).unwrap_or("").to_string()
    };
    v.get("findings")
        .and_then(|f| f.as_array())
        .map(|a| {
            a.iter()
                .map(|e| Finding {
                    property: s(e, "property"),
                    status: s(e, "status"),
                    signature: s(e, "signature"),
                    what: s(e, "what"),
                    replay: e
                        .get("replay")
                        .and_then(|x| x.as_str())
                        .map(str::to_string),
                    config: s(e, "config"),
                })
                .collect()
        })
        .unwrap_or_default()
}

/// Signatures the generated search tolerates for this property.
pub fn tolerated(prop: &str) -> Vec<String> {
    load()
        .into_iter()
        .filter(|f| f.property == prop && f.status == "known")
        .map(|f| f.signature)
        .collect()
}

#[must_use]
pub fn is_known(prop: &str, signature: &str) -> Option<Finding> {
    load().into_iter().find(|f| {
        f.property == prop && f.status == "known" && f.signature == signature
    })
}

/// Replay the saved cases of this property's findings.
pub fn replay_regressions(
    prop: &str,
    report: &mut Report,
    run: &dyn Fn(&serde_json::Value) -> CaseResult,
) {
    for f in load().into_iter().filter(|f| f.property == prop) {
        let Some(path) = &f.replay else {
            continue;
        };
        let full = if path.starts_with('/') {
            path.clone()
        } else {
            format!("/verif/{path}")
        };
        let Some(doc) = std::fs::read_to_string(&full)
            .ok()
            .and_then(|t| serde_json::from_str::<serde_json::Value>(&t).ok())
        else {
            report.inconclusive.push(format!("replay file {full} missing or unreadable"));
            continue;
        };
        let cr = run(&doc);
        match (f.status.as_str(), cr.violation) {
            ("known", Some(_)) => report.known.push(format!(
                "KNOWN-FINDING: property={} {}",
                f.property, f.what
            )),
            ("known", None) => eprintln!(
                "note: the witness of known finding {} ({}) does not fail any more; if the defect is gone, turn the entry into a fixed one, otherwise refresh the witness",
                f.signature, full
            ),
            (_, Some(v)) => report.violations.push((full, v)),
            (_, None) => {}
        }
    }
}
