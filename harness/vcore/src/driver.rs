//! proptest driver: byte-vector cases, sharded over OS threads, deterministic
//! per `VERIF_SEED`, shrinking to a minimal failing byte string; plus the
//! evidence writer and replay-file handling.

use std::{
    collections::{BTreeMap, BTreeSet},
    hash::{Hash, Hasher},
    path::PathBuf,
    sync::{
        Mutex,
        atomic::{AtomicBool, AtomicU64, Ordering},
    },
    time::Instant,
};

use proptest::{
    collection::vec,
    prelude::any,
    test_runner::{Config, RngSeed, TestCaseError, TestError, TestRunner},
};

#[derive(Debug, Default, Clone)]
pub struct CaseResult {
    /// `Some(description)` = the property was violated on this case
    pub violation: Option<String>,
    /// signature used to match known findings (stable across runs)
    pub signature: Option<String>,
    pub nontrivial: bool,
    pub labels: Vec<&'static str>,
    /// pretty-printed case for the evidence samples
    pub sample: Option<String>,
    /// additional numeric counters summed into the evidence
    pub counters: Vec<(&'static str, u64)>,
    /// for checks whose unit of evaluation is finer than a case (e.g. crash
    /// images of one history): number of units evaluated and the sub-ids of
    /// the non-trivial ones
    pub sub_evaluations: Option<u64>,
    pub sub_nontrivial: Vec<u64>,
}

#[derive(Debug, Clone)]
pub struct Failure {
    pub bytes: Vec<u8>,
    pub message: String,
    pub signature: Option<String>,
}

#[derive(Debug, Default)]
pub struct Stats {
    pub evaluations: u64,
    pub nontrivial: BTreeSet<u64>,
    pub labels: BTreeMap<String, u64>,
    pub counters: BTreeMap<String, u64>,
    pub samples: Vec<String>,
}

impl Stats {
    pub fn merge(&mut self, o: Self) {
        self.evaluations += o.evaluations;
        self.nontrivial.extend(o.nontrivial);
        for (k, v) in o.labels {
            *self.labels.entry(k).or_insert(0) += v;
        }
        for (k, v) in o.counters {
            *self.counters.entry(k).or_insert(0) += v;
        }
        for s in o.samples {
            if self.samples.len() < 4 {
                self.samples.push(s);
            }
        }
    }
}

#[must_use]
pub fn hash_bytes(b: &[u8]) -> u64 {
    let mut h = std::collections::hash_map::DefaultHasher::new();
    b.hash(&mut h);
    h.finish()
}

#[must_use]
pub fn env_seed() -> u64 {
    std::env::var("VERIF_SEED").ok().and_then(|s| s.parse().ok()).unwrap_or(0)
}

#[must_use]
pub fn shards() -> usize {
    std::env::var("VERIF_SHARDS")
        .ok()
        .and_then(|s| s.parse().ok())
        .unwrap_or_else(|| {
            std::thread::available_parallelism().map_or(8, std::num::NonZero::get)
        })
        .max(1)
}

/// Run `total_cases` generated cases (byte vectors of length `< max_len`)
/// through `f`, sharded over threads. Returns merged statistics and the first
/// (shrunk) failure, if any. Known-finding signatures in `tolerated` are
/// counted but do not fail the run (the search continues behind them).
pub fn drive<F>(
    seed: u64,
    total_cases: u64,
    max_len: usize,
    tolerated: &[String],
    f: F,
) -> (Stats, Option<Failure>, BTreeMap<String, u64>)
where
    F: Fn(&[u8]) -> CaseResult + Sync,
{
    drive_opts(seed, total_cases, max_len, tolerated, 300, 1500, f)
}

/// ordinal of the next `drive_opts` call in this process
static DRIVE_CALLS: std::sync::atomic::AtomicUsize = std::sync::atomic::AtomicUsize::new(0);

thread_local! {
    /// per-call override of the shard count (used by checks whose cases spawn
    /// many OS threads themselves)
    pub static SHARDS_OVERRIDE: std::cell::Cell<Option<usize>> =
        const { std::cell::Cell::new(None) };
}

/// Like [`drive`], with explicit shrinking budgets (library shrink iterations
/// and ddmin evaluations). Shrinking additionally stops after 150 s of wall
/// time; that only affects how small the reported case is, never the verdict.
pub fn drive_opts<F>(
    seed: u64,
    total_cases: u64,
    max_len: usize,
    tolerated: &[String],
    shrink_iters: u32,
    ddmin_budget: i64,
    f: F,
) -> (Stats, Option<Failure>, BTreeMap<String, u64>)
where
    F: Fn(&[u8]) -> CaseResult + Sync,
{
    // Crash isolation (see vcheck's supervisor): every shard leaves the bytes
    // of the case it is about to run in VERIF_CURRENT_DIR, so that a case that
    // kills the whole process (abort in a destructor, stack overflow) can be
    // identified afterwards; VERIF_ONLY_BYTES/VERIF_ONLY_CALL re-run exactly
    // one such case instead of the generated search.
    let call_no = DRIVE_CALLS.fetch_add(1, Ordering::SeqCst);
    let current_dir = std::env::var_os("VERIF_CURRENT_DIR").map(PathBuf::from);
    let f = move |bytes: &[u8]| -> CaseResult {
        if let Some(d) = &current_dir {
            let name = format!(
                "call{call_no}-{}.bin",
                std::thread::current().name().unwrap_or("main")
            );
            let _ = std::fs::write(d.join(name), bytes);
        }
        f(bytes)
    };
    // a panicking case is a failing case, wherever the case function is called
    let f = move |bytes: &[u8]| -> CaseResult {
        match std::panic::catch_unwind(std::panic::AssertUnwindSafe(|| f(bytes))) {
            Ok(r) => r,
            Err(_) => CaseResult {
                violation: Some(format!(
                    "panic: {}",
                    crate::util::take_panics().join(" | ")
                )),
                ..CaseResult::default()
            },
        }
    };
    crate::util::install_panic_hook();
    if let Some(path) = std::env::var_os("VERIF_ONLY_BYTES") {
        let only_call: usize = std::env::var("VERIF_ONLY_CALL")
            .ok()
            .and_then(|s| s.parse().ok())
            .unwrap_or(0);
        let mut stats = Stats::default();
        if only_call != call_no {
            return (stats, None, BTreeMap::new());
        }
        let bytes = std::fs::read(path).expect("VERIF_ONLY_BYTES unreadable");
        let r = f(&bytes);
        stats.evaluations = 1;
        let failure = r.violation.map(|message| Failure {
            bytes,
            message,
            signature: r.signature,
        });
        return (stats, failure, BTreeMap::new());
    }
    let n = SHARDS_OVERRIDE.with(std::cell::Cell::get).unwrap_or_else(shards) as u64;
    let total_cases = std::env::var("VERIF_CASES")
        .ok()
        .and_then(|s| s.parse().ok())
        .unwrap_or(total_cases);
    let per = total_cases.div_ceil(n);
    let stop = AtomicBool::new(false);
    let merged = Mutex::new(Stats::default());
    let failure: Mutex<Option<Failure>> = Mutex::new(None);
    let tolerated_hits: Mutex<BTreeMap<String, u64>> = Mutex::new(BTreeMap::new());
    let done_cases = AtomicU64::new(0);

    std::thread::scope(|scope| {
        for shard in 0..n {
            let f = &f;
            let stop = &stop;
            let merged = &merged;
            let failure = &failure;
            let tolerated_hits = &tolerated_hits;
            let done_cases = &done_cases;
            std::thread::Builder::new()
                .name(format!("shard{shard}"))
                .stack_size(64 << 20)
                .spawn_scoped(scope, move || {
                    let mut stats = Stats::default();
                    let failed_here = std::cell::Cell::new(false);
                    let mut runner = TestRunner::new(Config {
                        cases: per as u32,
                        failure_persistence: None,
                        rng_seed: RngSeed::Fixed(
                            seed.wrapping_mul(1_000_003).wrapping_add(shard),
                        ),
                        max_shrink_iters: shrink_iters,
                        max_shrink_time: 150_000,
                        verbose: 0,
                        ..Config::default()
                    });
                    let last_msg = std::cell::RefCell::new((String::new(), None));
                    let stats_cell = std::cell::RefCell::new(&mut stats);
                    let res = runner.run(
                        &vec(any::<u8>(), 0..max_len),
                        |bytes| {
                            if stop.load(Ordering::Relaxed) && !failed_here.get() {
                                return Ok(());
                            }
                            let r = f(&bytes);
                            if !failed_here.get() {
                                let mut st = stats_cell.borrow_mut();
                                st.evaluations += r.sub_evaluations.unwrap_or(1);
                                done_cases.fetch_add(1, Ordering::Relaxed);
                                for sub in &r.sub_nontrivial {
                                    st.nontrivial.insert(
                                        hash_bytes(&bytes) ^ sub.wrapping_mul(0x9E37_79B9_7F4A_7C15),
                                    );
                                }
                                if r.nontrivial {
                                    if r.sub_evaluations.is_none() {
                                        st.nontrivial.insert(hash_bytes(&bytes));
                                    }
                                    if st.samples.len() < 2 {
                                        if let Some(s) = &r.sample {
                                            st.samples.push(s.clone());
                                        }
                                    }
                                }
                                for l in &r.labels {
                                    *st.labels.entry((*l).to_string()).or_insert(0) += 1;
                                }
                                for (k, v) in &r.counters {
                                    *st.counters.entry((*k).to_string()).or_insert(0) += v;
                                }
                            }
                            if let Some(v) = r.violation {
                                if let Some(sig) = &r.signature {
                                    if tolerated.iter().any(|t| t == sig) {
                                        if !failed_here.get() {
                                            *tolerated_hits
                                                .lock()
                                                .unwrap()
                                                .entry(sig.clone())
                                                .or_insert(0) += 1;
                                        }
                                        return Ok(());
                                    }
                                }
                                failed_here.set(true);
                                stop.store(true, Ordering::Relaxed);
                                *last_msg.borrow_mut() = (v.clone(), r.signature.clone());
                                return Err(TestCaseError::fail(v));
                            }
                            Ok(())
                        },
                    );
                    drop(stats_cell);
                    if let Err(TestError::Fail(_, bytes)) = res {
                        let (message, signature) = last_msg.borrow().clone();
                        let bytes = ddmin(bytes, ddmin_budget, &|b| {
                            let r = f(b);
                            match (&r.violation, &r.signature) {
                                (Some(_), Some(sig)) => {
                                    !tolerated.iter().any(|t| t == sig)
                                }
                                (Some(_), None) => true,
                                _ => false,
                            }
                        });
                        // re-run the minimal case to get its own message
                        let r = f(&bytes);
                        let (message, signature) = match r.violation {
                            Some(m) => (m, r.signature),
                            None => (message, signature),
                        };
                        let mut fl = failure.lock().unwrap();
                        if fl.is_none() {
                            *fl = Some(Failure { bytes, message, signature });
                        }
                    } else if let Err(TestError::Abort(reason)) = res {
                        eprintln!("shard {shard} aborted: {reason}");
                    }
                    merged.lock().unwrap().merge(stats);
                })
                .unwrap();
        }
    });
    (
        merged.into_inner().unwrap(),
        failure.into_inner().unwrap(),
        tolerated_hits.into_inner().unwrap(),
    )
}

/// Byte-level delta debugging after the library's own shrinking: remove
/// chunks of decreasing size, then lower single bytes. `fails` must be
/// deterministic. Bounded work (at most ~6000 evaluations).
pub fn ddmin(
    mut bytes: Vec<u8>,
    mut budget: i64,
    fails: &dyn Fn(&[u8]) -> bool,
) -> Vec<u8> {
    let deadline = Instant::now() + std::time::Duration::from_secs(150);
    let fails = |b: &[u8]| -> bool {
        if Instant::now() > deadline {
            return false;
        }
        fails(b)
    };
    let mut progress = true;
    while progress && budget > 0 {
        progress = false;
        let mut chunk = (bytes.len() / 2).max(1);
        loop {
            let mut i = 0;
            while i < bytes.len() && budget > 0 {
                let end = (i + chunk).min(bytes.len());
                let mut cand = Vec::with_capacity(bytes.len() - (end - i));
                cand.extend_from_slice(&bytes[..i]);
                cand.extend_from_slice(&bytes[end..]);
                budget -= 1;
                if fails(&cand) {
                    bytes = cand;
                    progress = true;
                } else {
                    i += chunk;
                }
            }
            if chunk == 1 {
                break;
            }
            chunk = (chunk / 2).max(1);
        }
        // lower bytes: 0, then halve
        let mut i = 0;
        while i < bytes.len() && budget > 0 {
            if bytes[i] != 0 {
                let orig = bytes[i];
                for cand_b in [0u8, orig / 2, orig - 1] {
                    if cand_b >= orig {
                        continue;
                    }
                    bytes[i] = cand_b;
                    budget -= 1;
                    if fails(&bytes) {
                        progress = true;
                        break;
                    }
                    bytes[i] = orig;
                }
            }
            i += 1;
        }
    }
    // drop trailing zeros (they decode like an exhausted tape)
    while bytes.last() == Some(&0) {
        let mut cand = bytes.clone();
        cand.pop();
        if fails(&cand) {
            bytes = cand;
        } else {
            break;
        }
    }
    bytes
}

/// Write a replay file (`.json`: structured case + metadata, plus a `.txt`
/// pretty print) and return the path of the `.json` file.
pub fn write_replay(
    prop: &str,
    doc: &serde_json::Value,
    pretty: &str,
) -> PathBuf {
    // VERIF_REPLAY_DIR: used when a check is run against a deliberately broken
    // copy of the repository (sensitivity runs), to keep /verif/replays clean
    let dir = std::env::var_os("VERIF_REPLAY_DIR")
        .map_or_else(|| PathBuf::from("/verif/replays"), PathBuf::from);
    let _ = std::fs::create_dir_all(&dir);
    let txt = serde_json::to_string(doc).unwrap();
    let h = hash_bytes(txt.as_bytes());
    let p = dir.join(format!("{prop}-{h:016x}.json"));
    let _ = std::fs::write(&p, serde_json::to_string_pretty(doc).unwrap());
    let _ = std::fs::write(p.with_extension("txt"), pretty);
    p
}

pub struct Evidence {
    pub property_id: String,
    pub tier: String,
    pub seed: u64,
    pub level: &'static str,
    pub rule: String,
    pub assumptions: Vec<String>,
    pub started: Instant,
    pub stats: Stats,
    pub violations: u64,
    pub extra: serde_json::Map<String, serde_json::Value>,
}

impl Evidence {
    #[must_use]
    pub fn new(property_id: &str, tier: &str, seed: u64, level: &'static str, rule: &str) -> Self {
        Self {
            property_id: property_id.to_string(),
            tier: tier.to_string(),
            seed,
            level,
            rule: rule.to_string(),
            assumptions: Vec::new(),
            started: Instant::now(),
            stats: Stats::default(),
            violations: 0,
            extra: serde_json::Map::new(),
        }
    }

    pub fn write(&self) {
        use serde_json::{Value, json};
        if std::env::var_os("VERIF_NO_EVIDENCE").is_some() {
            return;
        }
        let mut coverage = serde_json::Map::new();
        // a check may consist of several binaries (feature variants) run one
        // after the other by ./check: later ones add to the file just written
        let path = format!("/verif/evidence/{}.json", self.property_id);
        let prior: Option<Value> = std::env::var_os("VERIF_EVIDENCE_MERGE")
            .and_then(|_| std::fs::read_to_string(&path).ok())
            .and_then(|t| serde_json::from_str(&t).ok());
        let p = |k: &str| -> u64 {
            prior.as_ref().and_then(|v| v["coverage"][k].as_u64()).unwrap_or(0)
        };
        coverage.insert("evaluations".into(), json!(self.stats.evaluations + p("evaluations")));
        coverage.insert(
            "distinct_nontrivial".into(),
            json!(self.stats.nontrivial.len() as u64 + p("distinct_nontrivial")),
        );
        if let Some(pr) = &prior {
            coverage.insert("merged_from_previous_variant".into(), pr["coverage"].clone());
        }
        coverage.insert("rule".into(), json!(self.rule));
        let samples: Vec<Value> = if self.stats.samples.is_empty() {
            vec![json!("(no non-trivial sample recorded)")]
        } else {
            self.stats.samples.iter().map(|s| json!(s)).collect()
        };
        coverage.insert("samples".into(), Value::Array(samples));
        coverage.insert("case_classes".into(), json!(self.stats.labels));
        coverage.insert("counters".into(), json!(self.stats.counters));
        for (k, v) in &self.extra {
            coverage.insert(k.clone(), v.clone());
        }
        let doc = json!({
            "property_id": self.property_id,
            "tier": self.tier,
            "seed": self.seed,
            "level": self.level,
            "coverage": Value::Object(coverage),
            "assumptions": self.assumptions,
            "wall_s": self.started.elapsed().as_secs_f64()
                + prior.as_ref().and_then(|v| v["wall_s"].as_f64()).unwrap_or(0.0),
            "violations": self.violations
                + prior.as_ref().and_then(|v| v["violations"].as_u64()).unwrap_or(0),
        });
        let _ = std::fs::create_dir_all("/verif/evidence");
        std::fs::write(&path, serde_json::to_string_pretty(&doc).unwrap())
            .expect("write evidence");
    }
}
