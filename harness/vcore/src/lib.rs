//! vcore: generators, oracles and drivers for the qbice property checks.
#![allow(clippy::all)]

pub mod backend;
pub mod ck_backend;
pub mod ck_cancel;
pub mod ck_crash;
pub mod ck_cycle;
pub mod ck_engine;
pub mod ck_intern;
pub mod ck_lfu;
pub mod ck_sets;
pub mod ck_storage;
pub mod conc;
pub mod sched;
pub mod driver;
pub mod hist;
pub mod known;
pub mod mockkv;
pub mod prog;
pub mod queries;
pub mod seq;
pub mod tape;
pub mod util;

#[derive(Debug, Clone, Copy, PartialEq, Eq)]
pub enum Tier {
    Quick,
    Thorough,
}

impl Tier {
    #[must_use]
    pub const fn name(self) -> &'static str {
        match self {
            Self::Quick => "quick",
            Self::Thorough => "thorough",
        }
    }
}

/// Result of one check run, turned into stdout lines + exit code by `vcheck`.
#[derive(Debug, Default)]
pub struct Report {
    pub property: String,
    /// (replay path, message)
    pub violations: Vec<(String, String)>,
    /// KNOWN-FINDING lines to print
    pub known: Vec<String>,
    /// inconclusive (watchdog / infrastructure) notes => exit 2
    pub inconclusive: Vec<String>,
}
