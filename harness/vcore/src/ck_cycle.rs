//! Check C06: dependency cycles terminate with cycle defaults.
//!
//! Programs have three layers: an acyclic base (In / Nq), a cyclic layer of
//! Cy / CyF nodes (declared `scc_value`) that may read anything including
//! themselves, and observers (Nq) that read the cyclic layer but are never read
//! by it. Reads inside the cyclic layer are guarded by pure-input conditions
//! only, so the read graph is a function of the inputs and edits switch cycle
//! edges on and off. The oracle is a validity predicate (several cycle-breaking
//! outcomes are legal, depending on who enters first).

use std::{
    cell::Cell,
    collections::{BTreeMap, BTreeSet},
    future::Future,
    pin::Pin,
    rc::Rc,
    sync::Arc,
};

use crate::{
    Report, Tier,
    backend::{Backend, BackendA},
    driver::{CaseResult, Evidence, drive, env_seed, write_replay},
    hist::{program_from_json, program_to_json},
    known,
    prog::{Expr, Kind, Node, Program, Val, slot_of, truthy},
    queries::{CY_DEFAULT, CYF_DEFAULT, In, InvStatus, Shared, register_all, user_query, user_repair_tfc},
    sched::{Chooser, HookMode, HookStats, SchedTape, install_controller},
    tape::Tape,
    util::{RunError, run_paused},
};

#[derive(Debug, Clone, PartialEq, Eq)]
pub enum CStep {
    Session(Vec<(u32, i64)>),
    /// query every node in this order; `tasks` > 1: split round-robin over
    /// that many concurrent tasks scheduled by the tape
    QueryAll { order: Vec<u32>, tasks: usize },
}

#[derive(Debug, Clone)]
pub struct CycCase {
    /// strict: known finding KF3 is not tolerated (used by its witness replay)
    pub strict: bool,
    /// request every firewall as a root (deepest first) before each round;
    /// off only in the witness of KF2, whose firewall lies on a cycle
    pub firewalls_first: bool,
    pub prog: Program,
    pub steps: Vec<CStep>,
    pub tape: Vec<u8>,
}

fn pure_input(p: &Program, e: &Expr) -> bool {
    match e {
        Expr::Const(_) => true,
        Expr::Read(n, _) => p.nodes[*n as usize].kind == Kind::In,
        Expr::Add(a, b) | Expr::Mul(a, b) | Expr::Min(a, b) => {
            pure_input(p, a) && pure_input(p, b)
        }
        Expr::Mod(a, _) => pure_input(p, a),
        Expr::If(c, a, b) => pure_input(p, c) && pure_input(p, a) && pure_input(p, b),
        _ => false,
    }
}

/// Evaluate an expression with `val(node)` supplying callee values.
fn eval_with(e: &Expr, val: &dyn Fn(u32) -> Val) -> i64 {
    match e {
        Expr::Const(c) => *c,
        Expr::Read(n, s) => slot_of(&val(*n), *s),
        Expr::Add(a, b) => eval_with(a, val).wrapping_add(eval_with(b, val)),
        Expr::Mul(a, b) => eval_with(a, val).wrapping_mul(eval_with(b, val)),
        Expr::Min(a, b) => eval_with(a, val).min(eval_with(b, val)),
        Expr::Mod(a, m) => eval_with(a, val).rem_euclid(*m),
        Expr::If(c, a, b) => {
            if truthy(eval_with(c, val)) { eval_with(a, val) } else { eval_with(b, val) }
        }
        _ => unreachable!("not generated for cyclic programs"),
    }
}

/// Reads the expression performs under the given inputs (guards are
/// pure-input, so this is exact).
/// firewalls in an order in which every firewall comes after all firewalls
/// it can statically reach
fn firewalls_deepest_first(p: &Program) -> Vec<u32> {
    let n = p.nodes.len() as u32;
    let graph: BTreeMap<u32, Vec<u32>> = (0..n).map(|y| (y, p.static_reads(y))).collect();
    let fws: Vec<u32> = (0..n)
        .filter(|y| matches!(p.nodes[*y as usize].kind, Kind::Fw | Kind::CyF))
        .collect();
    // number of firewalls reachable from each firewall; a firewall that
    // reaches another reaches strictly more (no firewall is on a cycle)
    let mut keyed: Vec<(usize, u32)> = fws
        .iter()
        .map(|f| {
            let mut seen = BTreeSet::new();
            let mut stack = vec![*f];
            while let Some(m) = stack.pop() {
                if seen.insert(m) {
                    stack.extend(graph[&m].iter().copied());
                }
            }
            (seen.iter().filter(|x| fws.contains(x)).count(), *f)
        })
        .collect();
    keyed.sort_unstable();
    keyed.into_iter().map(|x| x.1).collect()
}

fn reads_under(p: &Program, e: &Expr, inputs: &dyn Fn(u32) -> Val, out: &mut Vec<u32>) {
    match e {
        Expr::Const(_) => {}
        Expr::Read(n, _) => out.push(*n),
        Expr::Add(a, b) | Expr::Mul(a, b) | Expr::Min(a, b) => {
            reads_under(p, a, inputs, out);
            reads_under(p, b, inputs, out);
        }
        Expr::Mod(a, _) => reads_under(p, a, inputs, out),
        Expr::If(c, a, b) => {
            reads_under(p, c, inputs, out);
            debug_assert!(pure_input(p, c));
            if truthy(eval_with(c, inputs)) {
                reads_under(p, a, inputs, out);
            } else {
                reads_under(p, b, inputs, out);
            }
        }
        _ => unreachable!(),
    }
}

impl CycCase {
    pub fn decode(bytes: &[u8], tier: Tier) -> Self {
        let mut t = Tape::new(bytes);
        let n_in = 1 + t.idx(3);
        let n_base = t.idx(3);
        let n_cyc = 2 + t.idx(if tier == Tier::Thorough { 7 } else { 5 });
        let n_obs = t.idx(3);
        let mut p = Program::default();
        for _ in 0..n_in {
            p.nodes.push(Node { kind: Kind::In, slots: vec![], default: vec![t.idx(2) as i64] });
        }
        for i in 0..n_base {
            let lower = n_in + i;
            let a = t.idx(lower) as u32;
            let b = t.idx(lower) as u32;
            p.nodes.push(Node {
                kind: Kind::Nq,
                slots: vec![Expr::Mod(
                    Box::new(Expr::Add(Box::new(Expr::Read(a, 0)), Box::new(Expr::Read(b, 0)))),
                    3,
                )],
                default: vec![],
            });
        }
        let base_end = n_in + n_base;
        let cyc_end = base_end + n_cyc;
        for i in 0..n_cyc {
            let me = base_end + i;
            let kind = if t.chance(70) { Kind::CyF } else { Kind::Cy };
            let nterms = 1 + t.idx(3);
            let mut e: Option<Expr> = None;
            for _ in 0..nterms {
                // target: mostly inside the cyclic layer (incl. self and higher
                // ids), sometimes the base
                let target = if t.chance(190) {
                    // bias: neighbour, self, or anywhere
                    match t.idx(4) {
                        0 => me,
                        1 => base_end + (i + 1) % n_cyc,
                        _ => base_end + t.idx(n_cyc),
                    }
                } else {
                    t.idx(base_end)
                } as u32;
                let read = Expr::Read(target, 0);
                let term = if t.chance(150) {
                    let guard = Expr::Read(t.idx(n_in) as u32, 0);
                    let guard = if t.chance(100) {
                        // negate: (1 + in) % 2
                        Expr::Mod(Box::new(Expr::Add(Box::new(Expr::Const(1)), Box::new(guard))), 2)
                    } else {
                        guard
                    };
                    Expr::If(Box::new(guard), Box::new(read), Box::new(Expr::Const(t.idx(3) as i64)))
                } else {
                    read
                };
                e = Some(match e {
                    None => term,
                    Some(prev) => Expr::Add(Box::new(prev), Box::new(term)),
                });
            }
            let e = Expr::Mod(Box::new(Expr::Add(Box::new(e.unwrap()), Box::new(Expr::Const(1)))), 5);
            p.nodes.push(Node {
                kind,
                slots: vec![e],
                default: vec![if kind == Kind::Cy { CY_DEFAULT } else { CYF_DEFAULT }],
            });
        }
        for _ in 0..n_obs {
            let a = (base_end + t.idx(n_cyc)) as u32;
            let b = t.idx(cyc_end) as u32;
            p.nodes.push(Node {
                kind: Kind::Nq,
                slots: vec![Expr::Add(Box::new(Expr::Read(a, 0)), Box::new(Expr::Read(b, 0)))],
                default: vec![],
            });
        }
        // known finding KF2 excluded by construction: a firewall that is a
        // member of a cycle makes transitive-firewall repair recurse for ever,
        // so firewalls stay off every (statically possible) cycle; they still
        // occur below and above cycles.
        let mut static_graph: BTreeMap<u32, Vec<u32>> = BTreeMap::new();
        for y in 0..p.nodes.len() as u32 {
            static_graph.insert(y, p.static_reads(y));
        }
        for y in 0..p.nodes.len() as u32 {
            if p.nodes[y as usize].kind == Kind::CyF
                && on_cycle(&static_graph, y)
                && std::env::var_os("VERIF_C06_KEEP_FIREWALLS_ON_CYCLES").is_none()
            {
                p.nodes[y as usize].kind = Kind::Cy;
                p.nodes[y as usize].default = vec![CY_DEFAULT];
            }
        }
        let n = p.nodes.len();
        let mut steps = vec![CStep::Session(
            (0..n_in as u32).map(|i| (i, p.nodes[i as usize].default[0])).collect(),
        )];
        let rounds = 1 + t.idx(4);
        for r in 0..rounds {
            // query order: rotation + optional reversal
            let rot = t.idx(n);
            let mut order: Vec<u32> = (0..n as u32).map(|i| (i + rot as u32) % n as u32).collect();
            if t.chance(128) {
                order.reverse();
            }
            let tasks = if t.chance(110) { 2 + t.idx(3) } else { 1 };
            steps.push(CStep::QueryAll { order, tasks });
            if r + 1 < rounds {
                let k = 1 + t.idx(n_in);
                steps.push(CStep::Session(
                    (0..k).map(|_| (t.idx(n_in) as u32, t.idx(2) as i64)).collect(),
                ));
            }
        }
        Self { strict: false, firewalls_first: true, prog: p, steps, tape: t.rest().to_vec() }
    }

    pub fn pretty(&self) -> String {
        let mut s = self.prog.pretty();
        for (i, st) in self.steps.iter().enumerate() {
            s.push_str(&format!("#{i}: {st:?}\n"));
        }
        s.push_str(&format!("tape: {} bytes\n", self.tape.len()));
        s
    }

    pub fn to_json(&self) -> serde_json::Value {
        serde_json::json!({
            "strict": self.strict,
            "firewalls_first": self.firewalls_first,
            "program": program_to_json(&self.prog),
            "tape": self.tape,
            "steps": self.steps.iter().map(|s| match s {
                CStep::Session(v) => serde_json::json!({"session": v}),
                CStep::QueryAll{order, tasks} => serde_json::json!({"query_all": {"order": order, "tasks": tasks}}),
            }).collect::<Vec<_>>(),
        })
    }

    pub fn from_json(v: &serde_json::Value) -> Self {
        Self {
            strict: v["strict"].as_bool().unwrap_or(false),
            firewalls_first: v["firewalls_first"].as_bool().unwrap_or(true),
            prog: program_from_json(&v["program"]),
            tape: v["tape"].as_array().unwrap().iter().map(|x| x.as_u64().unwrap() as u8).collect(),
            steps: v["steps"].as_array().unwrap().iter().map(|s| {
                if let Some(x) = s.get("session") {
                    CStep::Session(x.as_array().unwrap().iter().map(|p| (p[0].as_u64().unwrap() as u32, p[1].as_i64().unwrap())).collect())
                } else {
                    let q = &s["query_all"];
                    CStep::QueryAll {
                        order: q["order"].as_array().unwrap().iter().map(|x| x.as_u64().unwrap() as u32).collect(),
                        tasks: q["tasks"].as_u64().unwrap() as usize,
                    }
                }
            }).collect(),
        }
    }
}

#[derive(Debug, Default)]
pub struct CycOutcome {
    pub kf3_stale_defaults: usize,
    pub violation: Option<String>,
    pub unwound_total: usize,
    pub labels: BTreeSet<&'static str>,
}

fn on_cycle(graph: &BTreeMap<u32, Vec<u32>>, n: u32) -> bool {
    // can n reach itself?
    let mut seen = BTreeSet::new();
    let mut stack: Vec<u32> = graph.get(&n).cloned().unwrap_or_default();
    while let Some(x) = stack.pop() {
        if x == n {
            return true;
        }
        if seen.insert(x) {
            stack.extend(graph.get(&x).cloned().unwrap_or_default());
        }
    }
    false
}

fn has_cycle_without(graph: &BTreeMap<u32, Vec<u32>>, removed: &BTreeSet<u32>) -> Option<u32> {
    for &n in graph.keys() {
        if removed.contains(&n) {
            continue;
        }
        let mut seen = BTreeSet::new();
        let mut stack: Vec<u32> = graph[&n].iter().copied().filter(|x| !removed.contains(x)).collect();
        while let Some(x) = stack.pop() {
            if x == n {
                return Some(n);
            }
            if seen.insert(x) {
                stack.extend(graph.get(&x).into_iter().flatten().copied().filter(|y| !removed.contains(y)));
            }
        }
    }
    None
}

pub async fn run_cyc(
    case: &CycCase,
    abort: tokio::sync::oneshot::Sender<()>,
) -> CycOutcome {
    let mut out = CycOutcome::default();
    let prog = Arc::new(case.prog.clone());
    let sh = Shared::new(prog.clone());
    let mut engine = BackendA.open(0).await;
    register_all(&mut engine, &sh);
    let engine = Arc::new(engine);
    let tape = SchedTape::new(case.tape.clone());
    let mode = Rc::new(Cell::new(HookMode::Off));
    let stats = Rc::new(HookStats::default());
    *stats.abort.borrow_mut() = Some(abort);
    let _guard = install_controller(tape.clone(), mode.clone(), stats.clone());
    let n = prog.nodes.len() as u32;
    let mut inputs: BTreeMap<u32, Val> = BTreeMap::new();
    let mut had_cycle_before = false;
    let mut prev_values: BTreeMap<u32, Val> = BTreeMap::new();
    for (si, st) in case.steps.iter().enumerate() {
        match st {
            CStep::Session(ops) => {
                let mut s = engine.input_session().await;
                for (i, v) in ops {
                    let v = Val::from(vec![*v]);
                    let _ = s.set_input(In(*i), v.clone()).await;
                    inputs.insert(*i, v);
                }
                s.commit().await;
            }
            CStep::QueryAll { order, tasks } => {
                let log_len_at_round_start = sh.log.lock().len();
                // known finding KF1 excluded by construction (firewalls first)
                // Every firewall is requested as a user-level root, deepest
                // first in the order of static reachability (firewalls are
                // off every cycle, so that order exists): when a node is then
                // verified or gains a dependency on an already computed node,
                // no firewall below it is stale any more. (Repairing the
                // recorded firewall sets node by node is not enough here:
                // unlike in the acyclic programs, a node may gain an edge to
                // a node with a higher index.)
                {
                    let te = engine.clone().tracked().await;
                    if case.firewalls_first {
                        for y in firewalls_deepest_first(&prog) {
                            let _ = user_query(&prog, &te, y).await;
                        }
                    }
                    for y in 0..n {
                        if !prog.nodes[y as usize].kind.is_leaf() {
                            user_repair_tfc(&prog, &te, y).await;
                        }
                    }
                }
                let mut values: BTreeMap<u32, Val> = BTreeMap::new();
                if *tasks <= 1 {
                    let te = engine.clone().tracked().await;
                    for q in order {
                        values.insert(*q, user_query(&prog, &te, *q).await);
                    }
                } else {
                    out.labels.insert("concurrent_roots");
                    let mut children: Vec<Pin<Box<dyn Future<Output = Vec<(u32, Val)>>>>> = Vec::new();
                    for ti in 0..*tasks {
                        let mine: Vec<u32> = order.iter().copied().skip(ti).step_by(*tasks).collect();
                        let engine = engine.clone();
                        let prog = prog.clone();
                        children.push(Box::pin(async move {
                            let te = engine.tracked().await;
                            let mut v = Vec::new();
                            for q in mine {
                                v.push((q, user_query(&prog, &te, q).await));
                            }
                            v
                        }));
                    }
                    mode.set(HookMode::Interleave);
                    let (outs, _, _) = Chooser::new(children, tape.clone()).await;
                    mode.set(HookMode::Off);
                    for o in outs {
                        values.extend(o);
                    }
                    // values handed to concurrent tasks may predate a sibling's
                    // recomputation only within one epoch, where values are
                    // stable; re-read sequentially for the judgement
                    let te = engine.clone().tracked().await;
                    for q in 0..n {
                        let v = user_query(&prog, &te, q).await;
                        if values.get(&q) != Some(&v) {
                            out.violation = Some(format!(
                                "step {si}: node {q} returned {:?} to a concurrent task and {:?} right afterwards in the same epoch",
                                values.get(&q), v
                            ));
                            return out;
                        }
                    }
                }
                // ---- validity predicate ----
                let inp = |i: u32| inputs.get(&i).cloned().unwrap_or_else(|| Val::from(vec![0]));
                let mut graph: BTreeMap<u32, Vec<u32>> = BTreeMap::new();
                for y in 0..n {
                    let mut r = Vec::new();
                    for e in &prog.nodes[y as usize].slots {
                        reads_under(&prog, e, &inp, &mut r);
                    }
                    graph.insert(y, r);
                }
                let mut last_index: BTreeMap<u32, usize> = BTreeMap::new();
                // what the last invocation of each node observed / tried to read
                let mut last_seen: BTreeMap<u32, (Vec<(u32, Val)>, Vec<u32>)> = BTreeMap::new();
                let (last_status, unwound_now): (BTreeMap<u32, InvStatus>, usize) = {
                    let log = sh.log.lock();
                    let mut m = BTreeMap::new();
                    for inv in log.iter() {
                        m.insert(inv.node, inv.status);
                        last_index.insert(inv.node, inv.id);
                        last_seen.insert(inv.node, (inv.reads.clone(), inv.attempted.clone()));
                    }
                    (m, log.iter().filter(|i| i.status == InvStatus::Unwound).count())
                };
                out.unwound_total = unwound_now;
                if std::env::var_os("VERIF_TRACE").is_some() {
                    eprintln!("--- after step {si}: values {values:?}");
                    for inv in sh.log.lock().iter() {
                        eprintln!("   inv#{} node {} step? {:?} attempted={:?} reads={:?} result={:?}", inv.id, inv.node, inv.status, inv.attempted, inv.reads, inv.result);
                    }
                }
                let a: BTreeSet<u32> = last_status
                    .iter()
                    .filter(|(_, s)| **s == InvStatus::Unwound)
                    .map(|(n, _)| *n)
                    .collect();
                let any_cycle = (0..n).any(|y| on_cycle(&graph, y));
                if any_cycle {
                    if (0..n).any(|y| graph[&y].contains(&y)) {
                        out.labels.insert("self_loop");
                    }
                    if (0..n).any(|y| prog.nodes[y as usize].kind == Kind::CyF && on_cycle(&graph, y)) {
                        out.labels.insert("cycle_through_firewall");
                    }
                    if si > 1 && !had_cycle_before {
                        out.labels.insert("cycle_created_by_edit");
                    }
                } else if had_cycle_before {
                    out.labels.insert("cycle_removed_by_edit");
                }
                had_cycle_before = any_cycle;
                for y in 0..n {
                    let node = &prog.nodes[y as usize];
                    let v = &values[&y];
                    if node.kind == Kind::In {
                        if *v != inp(y) {
                            out.violation = Some(format!("step {si}: input In{y} = {v:?}, committed {:?}", inp(y)));
                            return out;
                        }
                        continue;
                    }
                    if a.contains(&y) {
                        let d = Val::from(node.default.clone());
                        if node.default.is_empty() {
                            out.violation = Some(format!("step {si}: {}{y} (no cycle default declared) was unwound by the cycle signal", node.kind.tag()));
                            return out;
                        }
                        if *v != d {
                            out.violation = Some(format!(
                                "step {si}: {}{y} was unwound by the cycle signal but evaluates to {v:?}, declared default {d:?}",
                                node.kind.tag()
                            ));
                            return out;
                        }
                        // exactly KF3's precondition: nothing the node
                        // observed has a different value now, and a read that
                        // was cut short by the cycle signal goes to a node
                        // that reports the same value as in the round before
                        // (a change there dirties the kept edge and the node
                        // must run again)
                        let nothing_it_saw_changed = last_seen.get(&y).is_some_and(|(reads, attempted)| {
                            reads.iter().all(|(c, seen)| values.get(c) == Some(seen))
                                && attempted
                                    .iter()
                                    .filter(|c| !reads.iter().any(|(r, _)| r == *c))
                                    .all(|c| prev_values.get(c).is_some_and(|pv| values.get(c) == Some(pv)))
                        });
                        if !case.strict
                            && !on_cycle(&graph, y)
                            && last_index.get(&y).is_some_and(|i| *i < log_len_at_round_start)
                            && nothing_it_saw_changed
                        {
                            // known finding KF3: the default was assigned in an
                            // earlier round (when the node was on a cycle) and
                            // the node was not re-executed since, because none
                            // of the values it observed changed
                            out.kf3_stale_defaults += 1;
                        } else if !on_cycle(&graph, y) {
                            out.violation = Some(format!(
                                "step {si}: {}{y} got its cycle default although it lies on no cycle of the read graph under the committed inputs {graph:?}",
                                node.kind.tag()
                            ));
                            return out;
                        }
                    } else {
                        let val = |c: u32| values[&c].clone();
                        let expect: Vec<i64> = node.slots.iter().map(|e| eval_with(e, &val)).collect();
                        if **v != expect[..] {
                            out.violation = Some(format!(
                                "step {si}: {}{y} = {v:?} is not its expression over the values the engine reports for its dependencies ({expect:?}); cycle-default nodes: {a:?}",
                                node.kind.tag()
                            ));
                            return out;
                        }
                    }
                }
                prev_values = values.clone();
                if let Some(c) = has_cycle_without(&graph, &a) {
                    out.violation = Some(format!(
                        "step {si}: node {c} lies on a cycle none of whose members evaluates to a cycle default (defaults: {a:?}, graph {graph:?})"
                    ));
                    return out;
                }
            }
        }
    }
    drop(_guard);
    let weak = Arc::downgrade(&engine);
    drop(engine);
    let mut spins = 0;
    while weak.strong_count() > 0 && spins < 100_000 {
        tokio::task::yield_now().await;
        spins += 1;
    }
    out
}

pub fn run_struct(case: &CycCase) -> CaseResult {
    let mut cr = CaseResult::default();
    if let Some(dir) = std::env::var_os("VERIF_DUMP_CURRENT") {
        // debugging aid: leave the case that is running on this thread on disk
        let p = std::path::Path::new(&dir).join(format!(
            "current-{}.json",
            std::thread::current().name().unwrap_or("t")
        ));
        let _ = std::fs::write(p, serde_json::json!({"property": "C06", "case": case.to_json()}).to_string());
    }
    let c2 = case.clone();
    let r = run_paused(async move {
        let (tx, rx) = tokio::sync::oneshot::channel();
        tokio::select! {
            biased;
            out = run_cyc(&c2, tx) => Some(out),
            _ = rx => None,
        }
    });
    let r = match r {
        Ok(Some(o)) => Ok(o),
        Ok(None) => Err(RunError::Panic(crate::sched::LIVELOCK_MARKER.to_string())),
        Err(e) => Err(e),
    };
    match r {
        Err(RunError::Deadlock) => {
            cr.violation = Some("a request never completed: no task runnable (cycle not detected / lost wake-up)".into());
        }
        Err(RunError::Panic(p)) => {
            if p.contains(crate::sched::LIVELOCK_MARKER) {
                cr.violation = Some(format!(
                    "a request never completed (livelock): the engine passed more than {} hook points without finishing",
                    crate::sched::LIVELOCK_BUDGET
                ));
                cr.signature = Some("livelock".into());
            } else {
                cr.violation = Some(format!("panic: {p}"));
            }
        }
        Ok(out) => {
            cr.violation = out.violation;
            if std::env::var_os("VERIF_C06_ONLY_LIVELOCK").is_some() {
                // debugging aid (searching a fresh KF2 witness)
                cr.violation = None;
            }
            cr.nontrivial = out.unwound_total > 0;
            cr.labels = out.labels.into_iter().collect();
            cr.counters = vec![
                ("executors_unwound_by_cycle_signal", out.unwound_total as u64),
                ("tolerated_known_finding_KF3_stale_cycle_default", out.kf3_stale_defaults as u64),
            ];
            if cr.nontrivial {
                cr.sample = Some(case.pretty());
            }
        }
    }
    cr
}

pub fn check(tier: Tier) -> Report {
    let prop = "C06";
    let seed = env_seed();
    let mut report = Report { property: prop.into(), ..Report::default() };
    let mut ev = Evidence::new(
        prop,
        tier.name(),
        seed,
        "exploration",
        "case = small digraph program: acyclic base (In/Nq), 2..6 (thorough 8) Cy/CyF nodes with declared cycle defaults reading anything incl. themselves through edges guarded by pure-input conditions, observers; history of sessions that flip the guards and rounds that query every node in a generated order, sequentially or from 2..4 concurrent tasks scheduled by the tape + hooks. Oracle (validity predicate): termination by the idle-runtime oracle; every executor unwound by the cycle signal evaluates to its declared default and lies on a cycle of the read graph under the committed inputs; every other node equals its expression over the values the engine reports for its dependencies; every cycle contains a defaulted node. non-trivial = at least one executor was unwound by the cycle signal; distinct = distinct case bytes",
    );
    ev.assumptions = vec![
        "only nodes with a declared scc_value can lie on a cycle (executors without one panic by contract)".into(),
        "KF1 excluded by construction (transitive firewalls repaired through the public API before each round)".into(),
    ];
    known::replay_regressions(prop, &mut report, &|doc| run_struct(&CycCase::from_json(&doc["case"])));
    let cases = if tier == Tier::Thorough { 200_000 } else { 8000 };
    let (stats, failure, _) = drive(seed, cases, 400, &[], |b| run_struct(&CycCase::decode(b, tier)));
    ev.stats.merge(stats);
    if let Some(f) = failure {
        let case = CycCase::decode(&f.bytes, tier);
        let doc = serde_json::json!({"property": prop, "message": f.message, "case": case.to_json()});
        let path = write_replay(prop, &doc, &format!("{}\n{}", f.message, case.pretty()));
        report.violations.push((path.display().to_string(), f.message));
        ev.violations += 1;
    }
    ev.write();
    report
}

pub fn replay(path: &str) -> Report {
    let mut report = Report { property: "C06".into(), ..Report::default() };
    let doc: serde_json::Value =
        serde_json::from_str(&std::fs::read_to_string(path).expect("read")).expect("json");
    let case = CycCase::from_json(&doc["case"]);
    println!("{}", case.pretty());
    if let Some(v) = run_struct(&case).violation {
        report.violations.push((path.to_string(), v));
    }
    report
}
