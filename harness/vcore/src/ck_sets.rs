//! C02 part 3: linearizability-style stress of the engine's backward-edge set
//! (`CompressedBackwardEdgeSet`, via the H2 wrapper) and of `Arc<DashSet>`
//! from real OS threads, with oracles that are sound under any interleaving.

use std::{
    collections::BTreeSet,
    sync::{Arc, Barrier},
};

use dashmap::DashSet;
use qbice::query::QueryID;
use qbice_stable_hash::Compact128;
use qbice_storage::key_of_set_map::ConcurrentSet;

use crate::{driver::CaseResult, tape::Tape};

pub trait SetUnderTest: Send + Sync + 'static {
    fn new_set() -> Self;
    fn ins(&self, e: u32) -> bool;
    fn rem(&self, e: u32) -> bool;
    fn all(&self) -> Vec<u32>;
    fn name() -> &'static str;
    /// do `ins`/`rem` report whether the element was absent/present?
    fn reports_membership() -> bool { true }
    /// plans start from an empty structure (the first insertion is the race)
    fn always_starts_empty() -> bool { false }
}

/// The in-memory storage engine's backward-edge store: a map from key to a
/// shared set. Element `e` lives under key `e % 4`, so the threads of a plan
/// (whose element ranges start at multiples of 1000) make their i-th insertion
/// into the same, possibly not yet existing, set.
#[derive(Debug, Clone, Copy, PartialEq, Eq, Hash, qbice::Identifiable)]
pub struct KosCol;
impl qbice_storage::kv_database::KeyOfSetColumn for KosCol {
    type Key = u32;
    type Element = u32;
}

pub struct InMemoryKos(
    qbice_storage::key_of_set_map::in_memory::InMemoryKeyOfSetMap<
        KosCol,
        Arc<DashSet<u32, fxhash::FxBuildHasher>>,
    >,
);

impl SetUnderTest for InMemoryKos {
    fn new_set() -> Self { Self(Default::default()) }
    fn ins(&self, e: u32) -> bool {
        use qbice_storage::key_of_set_map::KeyOfSetMap as _;
        futures::executor::block_on(self.0.insert(
            e % 4,
            e,
            &mut qbice_storage::write_batch::FauxWriteBatch,
        ));
        true
    }
    fn rem(&self, e: u32) -> bool {
        use qbice_storage::key_of_set_map::KeyOfSetMap as _;
        futures::executor::block_on(self.0.remove(
            &(e % 4),
            &e,
            &mut qbice_storage::write_batch::FauxWriteBatch,
        ));
        true
    }
    fn all(&self) -> Vec<u32> {
        use qbice_storage::key_of_set_map::KeyOfSetMap as _;
        let mut v = Vec::new();
        for k in 0..4u32 {
            v.extend(futures::executor::block_on(self.0.get(&k)));
        }
        v
    }
    fn name() -> &'static str { "InMemoryKeyOfSetMap" }
    fn reports_membership() -> bool { false }
    fn always_starts_empty() -> bool { true }
}

fn qid(e: u32) -> QueryID {
    QueryID::from_parts(Compact128::from(7u128), Compact128::from(u128::from(e)))
}

#[cfg(feature = "hooks")]
impl SetUnderTest for qbice::engine::verif::VerifBackwardEdgeSet {
    fn new_set() -> Self { Self::new() }
    fn ins(&self, e: u32) -> bool { self.insert(qid(e)) }
    fn rem(&self, e: u32) -> bool { self.remove(&qid(e)) }
    fn all(&self) -> Vec<u32> {
        self.elements().into_iter().map(|q| q.hash_128() as u32).collect()
    }
    fn name() -> &'static str { "CompressedBackwardEdgeSet" }
}

impl SetUnderTest for Arc<DashSet<u32, fxhash::FxBuildHasher>> {
    fn new_set() -> Self { Arc::default() }
    fn ins(&self, e: u32) -> bool { self.insert_element(e) }
    fn rem(&self, e: u32) -> bool { self.remove_element(&e) }
    fn all(&self) -> Vec<u32> { ConcurrentSet::iter(self).collect() }
    fn name() -> &'static str { "Arc<DashSet>" }
}

#[derive(Debug, Clone, Copy, PartialEq, Eq)]
pub enum SetOp {
    Ins(u32),
    Rem(u32),
    Iter,
}

#[derive(Debug, Clone)]
pub struct SetPlan {
    pub prefill: u32,
    /// per thread: ops over the thread's own element range
    pub threads: Vec<Vec<SetOp>>,
}

impl SetPlan {
    pub fn decode(t: &mut Tape<'_>) -> Self {
        // start close to the 32-element tier boundary most of the time
        let prefill = [0u32, 24, 28, 30, 31, 32, 33, 40][t.idx(8)];
        let nthreads = 2 + t.idx(15);
        let mut threads = Vec::new();
        for th in 0..nthreads {
            let base = 1000 * (th as u32 + 1);
            let n = 1 + t.idx(10);
            let mut ops = Vec::new();
            let mut next = 0u32;
            for _ in 0..n {
                match t.weighted(&[150, 50, 56]) {
                    0 => {
                        ops.push(SetOp::Ins(base + next));
                        next += 1;
                    }
                    1 => {
                        let e = base + t.idx(next.max(1) as usize) as u32;
                        ops.push(SetOp::Rem(e));
                    }
                    _ => ops.push(SetOp::Iter),
                }
            }
            threads.push(ops);
        }
        Self { prefill, threads }
    }
}

pub fn run_plan<S: SetUnderTest>(plan: &SetPlan) -> CaseResult {
    let mut cr = CaseResult::default();
    let set = Arc::new(S::new_set());
    let prefill = if S::always_starts_empty() { 0 } else { plan.prefill };
    for e in 0..prefill {
        let _ = set.ins(e);
    }
    let barrier = Arc::new(Barrier::new(plan.threads.len()));
    let mut handles = Vec::new();
    for ops in plan.threads.clone() {
        let set = set.clone();
        let barrier = barrier.clone();
        handles.push(std::thread::spawn(move || -> (BTreeSet<u32>, Option<String>) {
            let mut mine: BTreeSet<u32> = BTreeSet::new();
            let mut err = None;
            barrier.wait();
            for op in ops {
                match op {
                    SetOp::Ins(e) => {
                        let fresh = set.ins(e);
                        let expect = !mine.contains(&e);
                        if S::reports_membership() && fresh != expect && err.is_none() {
                            err = Some(format!(
                                "insert({e}) returned {fresh}, the element was {} (only this thread touches it)",
                                if expect { "absent" } else { "present" }
                            ));
                        }
                        mine.insert(e);
                    }
                    SetOp::Rem(e) => {
                        let was = set.rem(e);
                        let expect = mine.contains(&e);
                        if S::reports_membership() && was != expect && err.is_none() {
                            err = Some(format!(
                                "remove({e}) returned {was}, the element was {}",
                                if expect { "present" } else { "absent" }
                            ));
                        }
                        mine.remove(&e);
                    }
                    SetOp::Iter => {
                        let seen: BTreeSet<u32> = set.all().into_iter().collect();
                        for e in &mine {
                            if !seen.contains(e) && err.is_none() {
                                err = Some(format!(
                                    "an iteration started after insert({e}) had returned (and before any remove) did not yield it"
                                ));
                            }
                        }
                    }
                }
            }
            (mine, err)
        }));
    }
    let mut expect: BTreeSet<u32> = (0..prefill).collect();
    let mut first_err = None;
    for h in handles {
        match h.join() {
            Ok((mine, err)) => {
                expect.extend(mine);
                if first_err.is_none() {
                    first_err = err;
                }
            }
            Err(_) => first_err = Some("a set thread panicked".into()),
        }
    }
    let got: BTreeSet<u32> = set.all().into_iter().collect();
    if first_err.is_none() && got != expect {
        let missing: Vec<_> = expect.difference(&got).take(8).collect();
        let extra: Vec<_> = got.difference(&expect).take(8).collect();
        first_err = Some(format!(
            "final content differs from the model: {} elements expected, {} found (missing {missing:?}, unexpected {extra:?})",
            expect.len(),
            got.len()
        ));
    }
    if let Some(e) = first_err {
        cr.violation = Some(format!("{}: {e}", S::name()));
        cr.signature = Some(format!("set:{}", S::name()));
    }
    let total_ins: usize = plan
        .threads
        .iter()
        .map(|o| o.iter().filter(|x| matches!(x, SetOp::Ins(_))).count())
        .sum();
    // non-trivial: the 32-element tier boundary is crossed while >= 2 threads
    // are active
    if S::always_starts_empty() {
        // non-trivial: at least two threads make a first insertion
        cr.nontrivial = plan
            .threads
            .iter()
            .filter(|o| o.iter().any(|x| matches!(x, SetOp::Ins(_))))
            .count()
            >= 2;
        if cr.nontrivial {
            cr.labels.push("concurrent_first_insertions_into_one_key");
        }
    } else {
        cr.nontrivial = plan.prefill <= 32
            && plan.prefill as usize + total_ins > 32
            && plan.threads.len() >= 2;
        if cr.nontrivial {
            cr.labels.push("tier_upgrade_during_concurrent_use");
        }
    }
    cr.counters = vec![("set_ops", plan.threads.iter().map(Vec::len).sum::<usize>() as u64)];
    if cr.nontrivial {
        cr.sample = Some(format!(
            "{} prefill={} threads={} ops={:?}",
            S::name(),
            plan.prefill,
            plan.threads.len(),
            plan.threads.iter().take(3).collect::<Vec<_>>()
        ));
    }
    cr
}
