//! Check C08: every prefix of the physical commit log is a crash image; an
//! engine opened on it must start, show the inputs of one earlier committed
//! session and answer every query with the from-scratch value for them.

use std::{
    collections::{BTreeMap, BTreeSet},
    sync::Arc,
};

use crate::{
    Report, Tier,
    backend::{BackendB, CommitMode},
    ck_engine::decode_case,
    driver::{CaseResult, Evidence, drive_opts, env_seed, write_replay},
    hist::{Case, SessOp, Step},
    known,
    mockkv::{Grouping, PhysBatch, Store},
    prog::{Kind, Oracle, Val},
    queries::{IN_SENTINEL, InvStatus, user_query, user_repair_tfc},
    seq::{Model, Runner},
    util::{RunError, run_paused},
};

#[derive(Debug, Clone, Default)]
pub struct Snapshot {
    pub inputs: BTreeMap<u32, Val>,
    pub xt_frozen: BTreeMap<u32, Val>,
    /// did this session change anything relative to the previous one
    pub changed: bool,
}

struct Phase1 {
    log: Vec<PhysBatch>,
    snapshots: Vec<Snapshot>,
    world: BTreeMap<u32, Val>,
    ok: bool,
}

fn phase1(case: &Case) -> Result<Phase1, RunError> {
    let prog = Arc::new(case.prog.clone());
    let steps = case.steps.clone();
    let store = Arc::new(Store::new());
    let backend = BackendB::from_knobs(store.clone(), case.knobs);
    run_paused(async move {
        let mut r = Runner::new(backend, prog, 0);
        r.check_c03 = false;
        r.open().await;
        let mut snapshots = vec![Snapshot::default()];
        for st in &steps {
            if matches!(st, Step::Restart) {
                continue;
            }
            r.step(st).await;
            if matches!(st, Step::Session { .. }) {
                let prev = snapshots.last().unwrap();
                let changed = prev.inputs != r.model.inputs
                    || prev.xt_frozen != r.model.xt_frozen;
                snapshots.push(Snapshot {
                    inputs: r.model.inputs.clone(),
                    xt_frozen: r.model.xt_frozen.clone(),
                    changed,
                });
            } else if let Some(last) = snapshots.last_mut() {
                // external inputs first demanded after the session belong to
                // the same snapshot
                last.xt_frozen = r.model.xt_frozen.clone();
            }
            if !r.out.violations.is_empty() {
                break;
            }
        }
        let ok = r.out.violations.is_empty();
        let world = r.model.world.clone();
        r.shutdown().await;
        let log = store.log.lock().clone();
        Phase1 { log, snapshots, world, ok }
    })
}

#[derive(Debug, Default)]
struct ImageResult {
    violation: Option<String>,
    nontrivial: bool,
    recovered_session: Option<usize>,
    served_without_execution: usize,
}

fn recover(
    case: &Case,
    p1: &Phase1,
    j: usize,
    descending: bool,
) -> Result<ImageResult, RunError> {
    let prog = Arc::new(case.prog.clone());
    let store = Arc::new(Store::from_log(&p1.log[..j]));
    let knobs = case.knobs;
    let snapshots = p1.snapshots.clone();
    let world = p1.world.clone();
    let total = p1.log.len();
    run_paused(async move {
        let mut res = ImageResult::default();
        let mut b = BackendB::from_knobs(store, knobs);
        b.mode = CommitMode::Open;
        *b.store.grouping.lock() = Grouping::Never;
        let mut r = Runner::new(b, prog.clone(), 0);
        r.check_c03 = false;
        r.defuse_kf1 = false;
        // the outside world does not roll back
        *r.sh.world.lock() = world.clone();
        r.model.world = world.clone();
        r.open().await;
        let n = prog.nodes.len() as u32;
        let engine = r.engine.as_ref().unwrap().clone();
        let te = engine.tracked().await;
        // (3) inputs as the recovered engine shows them
        let mut in_vals: BTreeMap<u32, Val> = BTreeMap::new();
        for i in prog.ids_of(|k| k == Kind::In) {
            in_vals.insert(i, user_query(&prog, &te, i).await);
        }
        // known finding KF1 is excluded by construction: repair the transitive
        // firewalls of every stored node first (callees before callers)
        for y in 0..n {
            if !prog.nodes[y as usize].kind.is_leaf() {
                user_repair_tfc(&prog, &te, y).await;
            }
        }
        // partial nodes are only ever read under their guard
        let order: Vec<u32> = if descending {
            (0..n).rev().filter(|y| !prog.is_partial(*y)).collect()
        } else {
            (0..n).filter(|y| !prog.is_partial(*y)).collect()
        };
        let mut observed: BTreeMap<u32, Val> = BTreeMap::new();
        for y in order {
            observed.insert(y, user_query(&prog, &te, y).await);
        }
        drop(te);
        let (executed, unwound): (BTreeSet<u32>, bool) = {
            let log = r.sh.log.lock();
            (
                log.iter().map(|i| i.node).collect(),
                log.iter().any(|i| i.status == InvStatus::Unwound),
            )
        };
        if unwound {
            res.violation = Some(format!("image {j}/{total}: an executor was unwound by a panic during recovery"));
            return res;
        }
        // which committed session do the inputs belong to?
        let sentinel = Val::from(vec![IN_SENTINEL]);
        let matches_inputs = |s: &Snapshot| {
            in_vals.iter().all(|(i, v)| match s.inputs.get(i) {
                Some(sv) => sv == v && !executed.contains(i),
                None => *v == sentinel,
            })
        };
        let xts = prog.ids_of(|k| k == Kind::Xt);
        let matches_xt = |s: &Snapshot| {
            xts.iter().all(|x| {
                if executed.contains(x) {
                    observed[x] == *world.get(x).unwrap()
                } else {
                    s.xt_frozen.get(x) == Some(&observed[x])
                }
            })
        };
        let cand: Vec<usize> = (0..snapshots.len())
            .filter(|&s| matches_inputs(&snapshots[s]) && matches_xt(&snapshots[s]))
            .collect();
        let Some(&s) = cand.last() else {
            let input_only: Vec<usize> = (0..snapshots.len())
                .filter(|&s| matches_inputs(&snapshots[s]))
                .collect();
            res.violation = Some(format!(
                "image {j}/{total}: recovered inputs {:?} (external {:?}) are not those of any committed session (sessions matching the plain inputs: {:?}; executed in recovery: {:?})",
                in_vals, xts.iter().map(|x| (x, observed[x].clone())).collect::<Vec<_>>(), input_only, executed
            ));
            return res;
        };
        res.recovered_session = Some(s);
        // (4) every node equals the from-scratch value for snapshot s
        let snap = &snapshots[s];
        let leaves = |n: u32| -> Val {
            match prog.nodes[n as usize].kind {
                Kind::In => snap.inputs.get(&n).cloned().unwrap_or_else(|| sentinel.clone()),
                _ => observed[&n].clone(),
            }
        };
        let mut oracle = Oracle::new(&prog, &leaves);
        for y in (0..n).filter(|y| !prog.is_partial(*y)) {
            let expect = oracle.node(y);
            if observed[&y] != expect {
                res.violation = Some(format!(
                    "image {j}/{total} (recovered session {s}): query {}{} returned {:?}, from-scratch value for that session is {:?}",
                    prog.nodes[y as usize].kind.tag(), y, observed[&y], expect
                ));
                return res;
            }
        }
        res.served_without_execution = (0..n)
            .filter(|y| !prog.nodes[*y as usize].kind.is_leaf() && !executed.contains(y))
            .count();
        let later_change = snapshots[s + 1..].iter().any(|x| x.changed);
        res.nontrivial = j > 0 && j < total && res.served_without_execution > 0 && later_change;
        // (5) the recovered engine keeps working: edit, query, clean restart,
        // query again (C01 oracle through the sequential runner)
        r.model = Model {
            inputs: snap.inputs.clone(),
            xt_frozen: xts.iter().map(|x| (*x, observed[x].clone())).collect(),
            world: world.clone(),
            epoch: 1000,
            ..Model::default()
        };
        r.sync_log_pos();
        r.defuse_kf1 = true;
        // mark every non-leaf node as computed so the KF1 exclusion sees them
        for y in 0..n {
            if !prog.nodes[y as usize].kind.is_leaf() {
                r.model.last_exec_epoch.insert(y, 1000);
            }
        }
        let ins = prog.ids_of(|k| k == Kind::In);
        let ops: Vec<SessOp> = ins
            .iter()
            .map(|i| {
                let mut v: Vec<i64> = snap
                    .inputs
                    .get(i)
                    .map_or_else(|| prog.nodes[*i as usize].default.clone(), |v| v.to_vec());
                if i % 2 == 0 {
                    if let Some(x) = v.first_mut() {
                        *x += 1;
                    }
                }
                SessOp::Set(*i, v)
            })
            .collect();
        // inputs absent from the image were computed through the logging
        // executor; setting them now must work like a first set. The model's
        // expectation for set_input results is not judged here.
        // Every input is written by the edit below. Inputs that are absent
        // from the image count as changed as well (the engine has computed
        // them through the input executor while all nodes were queried), which
        // the model cannot tell from their old value: mark them by hand so
        // that the KF1 exclusion sees the stale firewalls.
        for i in &ins {
            r.model.leaf_changed_epoch.insert(*i, 1001);
        }
        // The external world moves on and the recovered engine is asked to
        // refresh: every external input it holds (all of them were queried
        // above) must be read again, so its registry of external inputs has to
        // be as complete as its nodes.
        let mut cont: Vec<Step> = Vec::new();
        let mut ops = ops;
        if !xts.is_empty() {
            for x in &xts {
                let mut w: Vec<i64> = r.model.world.get(x).map_or_else(Vec::new, |v| v.to_vec());
                if let Some(first) = w.first_mut() {
                    *first += 1;
                }
                cont.push(Step::World(*x, w));
            }
            ops.insert(0, SessOp::Refresh);
        }
        cont.push(Step::Session { ops, by_drop: false });
        for x in &xts {
            cont.push(Step::Query(*x));
        }
        cont.extend([
            Step::Query(n - 1),
            Step::Restart,
            Step::Query(n - 1),
            Step::Query(prog.queryable(n / 2)),
        ]);
        for st in &cont {
            r.step(st).await;
        }
        r.shutdown().await;
        if let Some(v) = r
            .out
            .violations
            .iter()
            .find(|v| v.prop == "C01" && !v.what.starts_with("set_input/update"))
        {
            res.violation = Some(format!(
                "image {j}/{total} (recovered session {s}): after recovery + edit: {}",
                v.what
            ));
        }
        res
    })
}

pub fn run_struct(case: &Case, only_image: Option<usize>) -> CaseResult {
    let mut cr = CaseResult::default();
    let p1 = match phase1(case) {
        Ok(p) => p,
        Err(e) => {
            // a failure before any crash is C01/C07's business
            cr.counters.push(("phase1_failed", 1));
            let _ = e;
            cr.sub_evaluations = Some(0);
            return cr;
        }
    };
    if !p1.ok {
        cr.counters.push(("phase1_failed", 1));
        cr.sub_evaluations = Some(0);
        return cr;
    }
    let total = p1.log.len();
    let mut images = 0u64;
    let descending = case.knobs[1] & 1 == 1;
    let range: Vec<usize> = match only_image {
        Some(j) => vec![j.min(total)],
        None => (0..=total).collect(),
    };
    let mut served = 0u64;
    for j in range {
        images += 1;
        match recover(case, &p1, j, descending) {
            Err(RunError::Deadlock) => {
                cr.violation = Some(format!("image {j}/{total}: recovery deadlocked"));
                cr.signature = Some(format!("image={j}"));
            }
            Err(RunError::Panic(p)) => {
                cr.violation = Some(format!("image {j}/{total}: recovery panicked: {p}"));
                cr.signature = Some(format!("image={j}"));
            }
            Ok(ir) => {
                served += ir.served_without_execution as u64;
                if ir.nontrivial {
                    cr.sub_nontrivial.push(j as u64);
                    cr.nontrivial = true;
                }
                if let Some(v) = ir.violation {
                    cr.violation = Some(v);
                    cr.signature = Some(format!("image={j}"));
                }
            }
        }
        if cr.violation.is_some() {
            break;
        }
    }
    cr.sub_evaluations = Some(images);
    cr.counters.push(("crash_images", images));
    cr.counters.push(("histories", 1));
    cr.counters.push(("physical_commits", total as u64));
    cr.counters.push(("nodes_served_without_execution", served));
    if cr.nontrivial && cr.violation.is_none() {
        cr.sample = Some(format!(
            "{}\n(physical commits: {total}; non-trivial crash images: {:?})",
            case.pretty(),
            cr.sub_nontrivial
        ));
    }
    cr
}

pub fn check(tier: Tier) -> Report {
    let prop = "C08";
    let seed = env_seed();
    let mut report = Report { property: prop.to_string(), ..Report::default() };
    let mut ev = Evidence::new(
        prop,
        tier.name(),
        seed,
        "fault_enumeration",
        "case = generated program x history on DbBacked<MockKv> (capacity, workers, commit placement, grouping policy from the case) with the physical commit log recorded; EVERY prefix of the log is one evaluation (crash image): a new engine is opened on it, inputs are read, all nodes are queried (order from the case), then an edit + queries + clean restart follow; non-trivial = image neither empty nor final, at least one computed node served without execution, and an input was changed in the lost suffix; distinct = (case bytes, prefix length)",
    );
    ev.assumptions = vec![
        "fault model = the property's own: the store holds a prefix of the physical commits, each applied atomically (MockKv); torn writes inside a backend are out of scope".into(),
        "the outside world does not roll back: external inputs absent from the image are re-read from the current world".into(),
        "known finding KF1 excluded by construction (transitive firewalls of stored nodes repaired before querying)".into(),
    ];
    known::replay_regressions(prop, &mut report, &|doc| {
        let case = Case::from_json(&doc["case"]);
        run_struct(&case, doc["image"].as_u64().map(|x| x as usize))
    });
    let (cases, max_len) = match tier {
        Tier::Quick => (400, 1000),
        Tier::Thorough => (8000, 2000),
    };
    let (stats, failure, _) = drive_opts(seed, cases, max_len, &[], 40, 200, |bytes| {
        let case = decode_case(bytes, tier, false, true);
        run_struct(&case, None)
    });
    ev.stats.merge(stats);
    ev.extra.insert("exhaustive_per_history".into(), serde_json::json!(true));
    if let Some(f) = failure {
        let case = decode_case(&f.bytes, tier, false, true);
        let image = f
            .signature
            .as_deref()
            .and_then(|s| s.strip_prefix("image="))
            .and_then(|x| x.parse::<u64>().ok());
        let doc = serde_json::json!({
            "property": prop, "message": f.message, "image": image, "case": case.to_json(),
        });
        let pretty = format!("property C08\n{}\n{}", f.message, case.pretty());
        let path = write_replay(prop, &doc, &pretty);
        report.violations.push((path.display().to_string(), f.message));
        ev.violations += 1;
    }
    ev.write();
    report
}

pub fn replay(path: &str) -> Report {
    let mut report = Report { property: "C08".into(), ..Report::default() };
    let txt = std::fs::read_to_string(path).expect("read replay file");
    let doc: serde_json::Value = serde_json::from_str(&txt).expect("replay json");
    let case = Case::from_json(&doc["case"]);
    println!("{}", case.pretty());
    let cr = run_struct(&case, doc["image"].as_u64().map(|x| x as usize));
    if let Some(v) = cr.violation {
        report.violations.push((path.to_string(), v));
    }
    report
}

