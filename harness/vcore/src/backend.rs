//! Engine configurations: A = in-memory storage engine, B = `DbBacked<MockKv>`.

use std::{
    future::Future,
    sync::{Arc, atomic::Ordering},
    time::{Duration, Instant},
};

use parking_lot::Mutex;
use qbice::{
    Config, Engine, Identifiable,
    serialize::Plugin,
    stable_hash::{SeededStableHasherBuilder, Sip128Hasher},
    storage::storage_engine::{
        db_backed::{Configuration, DbBacked, DbBackedFactory},
        in_memory::{InMemoryStorageEngine, InMemoryStorageEngineFactory},
    },
};

use crate::mockkv::{Grouping, MockKv, MockKvFactory, Store};

#[derive(
    Debug, Clone, Copy, PartialEq, Eq, PartialOrd, Ord, Hash, Default, Identifiable,
)]
pub struct CfgA;

impl Config for CfgA {
    type StorageEngine = InMemoryStorageEngine;
    type BuildStableHasher = SeededStableHasherBuilder<Sip128Hasher>;
    type BuildHasher = fxhash::FxBuildHasher;
}

#[derive(
    Debug, Clone, Copy, PartialEq, Eq, PartialOrd, Ord, Hash, Default, Identifiable,
)]
pub struct CfgB;

impl Config for CfgB {
    type StorageEngine = DbBacked<MockKv>;
    type BuildStableHasher = SeededStableHasherBuilder<Sip128Hasher>;
    type BuildHasher = fxhash::FxBuildHasher;
}

pub trait Backend: 'static {
    type C: Config;

    fn open(&self, hasher_seed: u64) -> impl Future<Output = Engine<Self::C>>;

    /// whether state survives dropping the engine
    fn persistent(&self) -> bool { false }

    /// must be called before the engine is dropped
    fn before_shutdown(&self) {}

    /// called after every step of a history (commit placement, quiescence);
    /// returns false if the pipeline did not become quiescent in time
    fn after_step(&self, _release: Option<u64>) -> impl Future<Output = bool> {
        async { true }
    }

    fn name(&self) -> &'static str;

    /// after the engine has been dropped: `Some(description)` if batches that
    /// were submitted never reached the store (persistence stalled)
    fn persistence_gap(&self) -> Option<String> { None }
}

#[derive(Debug, Default, Clone, Copy)]
pub struct BackendA;

impl Backend for BackendA {
    type C = CfgA;

    async fn open(&self, hasher_seed: u64) -> Engine<CfgA> {
        Engine::<CfgA>::new_with(
            Plugin::default(),
            InMemoryStorageEngineFactory,
            SeededStableHasherBuilder::<Sip128Hasher>::new(hasher_seed),
        )
        .await
        .unwrap()
    }

    fn name(&self) -> &'static str { "A:in-memory" }
}

#[derive(Debug, Clone, Copy, PartialEq, Eq)]
pub enum CommitMode {
    /// gate always open, background writer free-running
    Open,
    /// gate closed during a step; everything is committed and all cache
    /// notifications are delivered between steps
    StepDrain,
    /// gate closed; commits happen only at `Release(k)` steps (and at drains
    /// before shutdown)
    Manual,
}

#[derive(Debug)]
pub struct BackendB {
    pub store: Arc<Store>,
    pub capacity: u64,
    pub workers: usize,
    pub mode: CommitMode,
    #[cfg(feature = "hooks")]
    stats: Mutex<Option<Arc<qbice::storage::verif::WriteBehindStats>>>,
    base: Mutex<(u64, u64)>,
    pub quiesce_timeouts: std::sync::atomic::AtomicU64,
}

impl BackendB {
    #[must_use]
    pub fn new(
        store: Arc<Store>,
        capacity: u64,
        workers: usize,
        mode: CommitMode,
        grouping: Grouping,
    ) -> Self {
        *store.grouping.lock() = grouping;
        Self {
            store,
            capacity,
            workers,
            mode,
            #[cfg(feature = "hooks")]
            stats: Mutex::new(None),
            base: Mutex::new((0, 0)),
            quiesce_timeouts: std::sync::atomic::AtomicU64::new(0),
        }
    }

    /// Decode (capacity, workers, mode, grouping) from knob bytes.
    #[must_use]
    pub fn from_knobs(store: Arc<Store>, k: [u8; 4]) -> Self {
        let capacity = [1u64, 1, 2, 3, 4, 8, 16, 64][usize::from(k[0]) * 8 >> 8];
        let workers = 1 + (usize::from(k[1]) * 3 >> 8);
        let mode = match usize::from(k[2]) * 4 >> 8 {
            0 => CommitMode::StepDrain,
            1 | 2 => CommitMode::Manual,
            _ => CommitMode::Open,
        };
        let grouping = match usize::from(k[3]) * 4 >> 8 {
            0 | 1 => Grouping::Never,
            2 => Grouping::UpTo(2),
            _ => Grouping::UpTo(4),
        };
        Self::new(store, capacity, workers, mode, grouping)
    }

    /// Wait until the write pipeline is quiescent under the current permits.
    #[cfg(feature = "hooks")]
    pub async fn quiesce(&self) -> bool {
        if self.quiesce_timeouts.load(Ordering::SeqCst) > 0 {
            // the pipeline has stalled before; do not wait for it again
            return false;
        }
        let Some(stats) = self.stats.lock().clone() else { return true };
        let (base_consumed, base_committed) = *self.base.lock();
        let start = Instant::now();
        loop {
            let submitted = stats.submitted();
            let consumed =
                self.store.consumed.load(Ordering::SeqCst) - base_consumed;
            let committed = self.store.committed_logical.load(Ordering::SeqCst)
                - base_committed;
            let notified = stats.after_commit_done();
            let pipeline_idle =
                consumed == submitted || self.store.blocked_at_gate();
            // when grouping holds back a physical batch, `committed` may lag
            // behind `consumed`; that state is stable too
            if pipeline_idle && notified == committed {
                // re-check stability of the committed counter
                if committed == self.store.committed_logical.load(Ordering::SeqCst)
                    - base_committed
                {
                    return true;
                }
            }
            if start.elapsed() > Duration::from_secs(3) {
                self.quiesce_timeouts.fetch_add(1, Ordering::SeqCst);
                return false;
            }
            // engine-spawned tasks (guard continuations of cancelled calls,
            // drop-commits) may still have to submit their batches: let the
            // runtime run them while waiting
            tokio::task::yield_now().await;
            std::thread::sleep(Duration::from_micros(20));
        }
    }

    #[cfg(not(feature = "hooks"))]
    pub async fn quiesce(&self) -> bool { true }
}

impl Drop for BackendB {
    /// A case future may be dropped at any point (deadlock oracle, violation):
    /// the engine's shutdown joins the committer thread, which must not be
    /// parked at a closed gate then.
    fn drop(&mut self) { self.store.open_gate(); }
}

impl Backend for BackendB {
    type C = CfgB;

    async fn open(&self, hasher_seed: u64) -> Engine<CfgB> {
        #[cfg(feature = "hooks")]
        {
            let _ = qbice::storage::verif::take_registered_write_behind_stats();
        }
        *self.base.lock() = (
            self.store.consumed.load(Ordering::SeqCst),
            self.store.committed_logical.load(Ordering::SeqCst),
        );
        match self.mode {
            CommitMode::Open => self.store.open_gate(),
            CommitMode::StepDrain | CommitMode::Manual => self.store.close_gate(),
        }
        let engine = Engine::<CfgB>::new_with(
            Plugin::default(),
            DbBackedFactory::builder()
                .configuration(
                    Configuration::builder()
                        .cache_capacity(self.capacity)
                        .serialization_workers(self.workers)
                        .build(),
                )
                .db_factory(MockKvFactory(self.store.clone()))
                .build(),
            SeededStableHasherBuilder::<Sip128Hasher>::new(hasher_seed),
        )
        .await
        .unwrap();
        #[cfg(feature = "hooks")]
        {
            let mut regs =
                qbice::storage::verif::take_registered_write_behind_stats();
            assert_eq!(regs.len(), 1, "one write manager per engine expected");
            *self.stats.lock() = regs.pop();
        }
        engine
    }

    fn persistent(&self) -> bool { true }

    fn before_shutdown(&self) { self.store.open_gate(); }

    async fn after_step(&self, release: Option<u64>) -> bool {
        match self.mode {
            CommitMode::Open => true,
            CommitMode::StepDrain => {
                self.store.open_gate();
                let ok = self.quiesce().await;
                self.store.close_gate();
                ok
            }
            CommitMode::Manual => {
                if let Some(k) = release {
                    self.store.release(k);
                }
                let ok = self.quiesce().await;
                self.store.zero_permits();
                ok
            }
        }
    }

    fn name(&self) -> &'static str { "B:DbBacked<MockKv>" }

    fn persistence_gap(&self) -> Option<String> {
        #[cfg(feature = "hooks")]
        {
            let stats = self.stats.lock().clone()?;
            let (_, base_committed) = *self.base.lock();
            let committed =
                self.store.committed_logical.load(Ordering::SeqCst) - base_committed;
            let submitted = stats.submitted();
            if committed != submitted {
                return Some(format!(
                    "{submitted} write batches were submitted but only {committed} reached the store by the time the engine had shut down (an unsubmitted batch holds back every later one)"
                ));
            }
        }
        None
    }
}
