//! MockKv: a scripted, logging, in-memory `KvDatabase` (engine E3).
//!
//! * components of a cell address are stored separately (column id, kind, key
//!   bytes, discriminant-or-element bytes), so the mock has no composite-key
//!   ambiguity of its own;
//! * values are the real postcard bytes, decoded with the plugin of the handle
//!   that reads them (interned values must be self-contained, as after a real
//!   restart);
//! * every `commit()` appends one physical batch to a log; a store can be
//!   re-materialised from any prefix of that log (crash image);
//! * a commit gate lets the case decide how far the background writer gets;
//! * `should_write_more()` answers from a generated grouping policy.

use std::{
    collections::BTreeMap,
    marker::PhantomData,
    sync::{
        Arc,
        atomic::{AtomicBool, AtomicU64, Ordering},
    },
};

use parking_lot::{Condvar, Mutex};
use qbice_serialize::{
    Decoder, Encode, Encoder, Plugin, PostcardDecoder, PostcardEncoder,
};
use qbice_stable_type_id::Identifiable;
use qbice_storage::kv_database::{
    DiscriminantEncoding, KeyOfSetColumn, KvDatabase, KvDatabaseFactory,
    SerializationBuffer, WideColumn, WideColumnValue, WriteBatch,
};

/// (column id, kind: 0 wide / 1 set, encoded key)
pub type RowKey = (u128, u8, Vec<u8>);

#[derive(Debug, Clone, PartialEq, Eq)]
pub enum Op {
    /// row, discriminant-or-element bytes, value bytes
    Put(RowKey, Vec<u8>, Vec<u8>),
    Del(RowKey, Vec<u8>),
}

pub type LogicalBuf = Vec<Op>;

#[derive(Debug, Clone, Default, PartialEq, Eq)]
pub struct PhysBatch {
    /// the logical serialization buffers consumed, in order; ops written
    /// directly on the batch (not through a buffer) form their own entry
    pub bufs: Vec<LogicalBuf>,
}

pub type Data = BTreeMap<RowKey, BTreeMap<Vec<u8>, Vec<u8>>>;

pub fn apply_ops(data: &mut Data, ops: &[Op]) {
    for op in ops {
        match op {
            Op::Put(row, sub, val) => {
                data.entry(row.clone())
                    .or_default()
                    .insert(sub.clone(), val.clone());
            }
            Op::Del(row, sub) => {
                if let Some(m) = data.get_mut(row) {
                    m.remove(sub);
                    if m.is_empty() {
                        data.remove(row);
                    }
                }
            }
        }
    }
}

#[derive(Debug, Clone, Copy, PartialEq, Eq)]
pub enum Grouping {
    /// one logical batch per physical batch
    Never,
    /// group up to k logical batches
    UpTo(usize),
}

#[derive(Debug)]
struct Gate {
    /// None = open
    permits: Option<u64>,
    blocked: bool,
}

/// The persistent part: survives "process restarts" of the engine.
#[derive(Debug)]
pub struct Store {
    pub data: Mutex<Data>,
    pub log: Mutex<Vec<PhysBatch>>,
    gate: Mutex<Gate>,
    gate_cv: Condvar,
    pub grouping: Mutex<Grouping>,
    /// logical buffers consumed by the committer so far
    pub consumed: AtomicU64,
    /// logical buffers contained in committed physical batches
    pub committed_logical: AtomicU64,
    pub committed_physical: AtomicU64,
    /// serialization buffers handed out
    pub ser_bufs: AtomicU64,
    pub log_enabled: AtomicBool,
}

impl Default for Store {
    fn default() -> Self { Self::new() }
}

impl Store {
    #[must_use]
    pub fn new() -> Self {
        Self {
            data: Mutex::new(Data::new()),
            log: Mutex::new(Vec::new()),
            gate: Mutex::new(Gate { permits: None, blocked: false }),
            gate_cv: Condvar::new(),
            grouping: Mutex::new(Grouping::Never),
            consumed: AtomicU64::new(0),
            committed_logical: AtomicU64::new(0),
            committed_physical: AtomicU64::new(0),
            ser_bufs: AtomicU64::new(0),
            log_enabled: AtomicBool::new(true),
        }
    }

    /// Store as it is after exactly the first `j` physical commits of `log`.
    #[must_use]
    pub fn from_log(log: &[PhysBatch]) -> Self {
        let s = Self::new();
        {
            let mut d = s.data.lock();
            for pb in log {
                for b in &pb.bufs {
                    apply_ops(&mut d, b);
                }
            }
        }
        s
    }

    pub fn close_gate(&self) {
        let mut g = self.gate.lock();
        if g.permits.is_none() {
            g.permits = Some(0);
        }
    }

    pub fn open_gate(&self) {
        let mut g = self.gate.lock();
        g.permits = None;
        self.gate_cv.notify_all();
    }

    pub fn release(&self, k: u64) {
        let mut g = self.gate.lock();
        if let Some(p) = g.permits.as_mut() {
            *p += k;
        }
        self.gate_cv.notify_all();
    }

    /// drop unused permits (keeps the gate closed)
    pub fn zero_permits(&self) {
        let mut g = self.gate.lock();
        if g.permits.is_some() {
            g.permits = Some(0);
        }
    }

    /// committer is parked at the closed gate with no permits left
    #[must_use]
    pub fn blocked_at_gate(&self) -> bool {
        let g = self.gate.lock();
        g.blocked && g.permits == Some(0)
    }

    fn pass_gate(&self) {
        let mut g = self.gate.lock();
        loop {
            match g.permits {
                None => break,
                Some(p) if p > 0 => {
                    g.permits = Some(p - 1);
                    break;
                }
                Some(_) => {
                    g.blocked = true;
                    self.gate_cv.wait(&mut g);
                }
            }
        }
        g.blocked = false;
    }

    #[must_use]
    pub fn snapshot(&self) -> Data { self.data.lock().clone() }

    #[must_use]
    pub fn log_len(&self) -> usize { self.log.lock().len() }
}

#[derive(Clone)]
pub struct MockKv {
    pub store: Arc<Store>,
    plugin: Arc<Plugin>,
}

impl std::fmt::Debug for MockKv {
    fn fmt(&self, f: &mut std::fmt::Formatter<'_>) -> std::fmt::Result {
        f.debug_struct("MockKv").finish_non_exhaustive()
    }
}

fn enc<T: Encode>(plugin: &Plugin, v: &T, buf: &mut Vec<u8>) {
    let mut e = PostcardEncoder::new(buf);
    e.encode(v, plugin).expect("encoding should not fail");
}

fn wide_row<W: WideColumn>(plugin: &Plugin, key: &W::Key) -> RowKey {
    let mut k = Vec::new();
    enc(plugin, key, &mut k);
    (W::STABLE_TYPE_ID.as_u128(), 0, k)
}

fn disc_bytes<W: WideColumn, C: WideColumnValue<W>>(plugin: &Plugin) -> Vec<u8> {
    let mut d = Vec::new();
    // the encoding position (prefix/suffix) is irrelevant here because the
    // components are stored separately; touch it so a panic in it is visible
    let _: DiscriminantEncoding = W::discriminant_encoding();
    enc(plugin, &C::discriminant(), &mut d);
    d
}

fn set_row<C: KeyOfSetColumn>(plugin: &Plugin, key: &C::Key) -> RowKey {
    let mut k = Vec::new();
    enc(plugin, key, &mut k);
    (C::STABLE_TYPE_ID.as_u128(), 1, k)
}

impl MockKv {
    #[must_use]
    pub fn new(store: Arc<Store>, plugin: Plugin) -> Self {
        Self { store, plugin: Arc::new(plugin) }
    }
}

pub struct MockSerBuf {
    plugin: Arc<Plugin>,
    ops: Vec<Op>,
}

impl std::fmt::Debug for MockSerBuf {
    fn fmt(&self, f: &mut std::fmt::Formatter<'_>) -> std::fmt::Result {
        f.debug_struct("MockSerBuf").field("ops", &self.ops.len()).finish()
    }
}

fn op_put<W: WideColumn, C: WideColumnValue<W>>(
    plugin: &Plugin,
    key: &W::Key,
    value: &C,
) -> Op {
    let mut v = Vec::new();
    enc(plugin, value, &mut v);
    Op::Put(wide_row::<W>(plugin, key), disc_bytes::<W, C>(plugin), v)
}

fn op_delete<W: WideColumn, C: WideColumnValue<W>>(
    plugin: &Plugin,
    key: &W::Key,
) -> Op {
    Op::Del(wide_row::<W>(plugin, key), disc_bytes::<W, C>(plugin))
}

fn op_insert_member<C: KeyOfSetColumn>(
    plugin: &Plugin,
    key: &C::Key,
    value: &C::Element,
) -> Op {
    let mut e = Vec::new();
    enc(plugin, value, &mut e);
    Op::Put(set_row::<C>(plugin, key), e, Vec::new())
}

fn op_delete_member<C: KeyOfSetColumn>(
    plugin: &Plugin,
    key: &C::Key,
    value: &C::Element,
) -> Op {
    let mut e = Vec::new();
    enc(plugin, value, &mut e);
    Op::Del(set_row::<C>(plugin, key), e)
}

impl SerializationBuffer for MockSerBuf {
    fn put<W: WideColumn, C: WideColumnValue<W>>(
        &mut self,
        key: &W::Key,
        value: &C,
    ) {
        self.ops.push(op_put::<W, C>(&self.plugin, key, value));
    }

    fn delete<W: WideColumn, C: WideColumnValue<W>>(&mut self, key: &W::Key) {
        self.ops.push(op_delete::<W, C>(&self.plugin, key));
    }

    fn insert_member<C: KeyOfSetColumn>(
        &mut self,
        key: &C::Key,
        value: &C::Element,
    ) {
        self.ops.push(op_insert_member::<C>(&self.plugin, key, value));
    }

    fn delete_member<C: KeyOfSetColumn>(
        &mut self,
        key: &C::Key,
        value: &C::Element,
    ) {
        self.ops.push(op_delete_member::<C>(&self.plugin, key, value));
    }
}

pub struct MockWriteBatch {
    store: Arc<Store>,
    plugin: Arc<Plugin>,
    bufs: Vec<LogicalBuf>,
    /// ops written directly on the batch (current direct buffer)
    direct: Vec<Op>,
}

impl std::fmt::Debug for MockWriteBatch {
    fn fmt(&self, f: &mut std::fmt::Formatter<'_>) -> std::fmt::Result {
        f.debug_struct("MockWriteBatch").finish_non_exhaustive()
    }
}

impl MockWriteBatch {
    fn flush_direct(&mut self) {
        if !self.direct.is_empty() {
            self.bufs.push(std::mem::take(&mut self.direct));
        }
    }
}

impl WriteBatch for MockWriteBatch {
    type SerializationBuffer = MockSerBuf;

    fn put<W: WideColumn, C: WideColumnValue<W>>(
        &mut self,
        key: &W::Key,
        value: &C,
    ) {
        self.direct.push(op_put::<W, C>(&self.plugin, key, value));
    }

    fn delete<W: WideColumn, C: WideColumnValue<W>>(&mut self, key: &W::Key) {
        self.direct.push(op_delete::<W, C>(&self.plugin, key));
    }

    fn insert_member<C: KeyOfSetColumn>(
        &mut self,
        key: &C::Key,
        value: &C::Element,
    ) {
        self.direct.push(op_insert_member::<C>(&self.plugin, key, value));
    }

    fn delete_member<C: KeyOfSetColumn>(
        &mut self,
        key: &C::Key,
        value: &C::Element,
    ) {
        self.direct.push(op_delete_member::<C>(&self.plugin, key, value));
    }

    fn consume_serialization_buffer(&mut self, buffer: MockSerBuf) {
        self.flush_direct();
        self.bufs.push(buffer.ops);
        self.store.consumed.fetch_add(1, Ordering::SeqCst);
    }

    fn commit(mut self) {
        self.flush_direct();
        if self.bufs.is_empty() {
            // the write manager flushes an empty physical batch at shutdown;
            // it carries nothing and is not a crash point
            return;
        }
        self.store.pass_gate();
        let n = self.bufs.len() as u64;
        {
            let mut d = self.store.data.lock();
            for b in &self.bufs {
                apply_ops(&mut d, b);
            }
            if self.store.log_enabled.load(Ordering::Relaxed) {
                self.store
                    .log
                    .lock()
                    .push(PhysBatch { bufs: std::mem::take(&mut self.bufs) });
            }
        }
        self.store.committed_logical.fetch_add(n, Ordering::SeqCst);
        self.store.committed_physical.fetch_add(1, Ordering::SeqCst);
    }

    fn should_write_more(&self) -> bool {
        match *self.store.grouping.lock() {
            Grouping::Never => false,
            Grouping::UpTo(k) => self.bufs.len() < k,
        }
    }
}

pub struct MockScan<C: KeyOfSetColumn> {
    plugin: Arc<Plugin>,
    items: std::vec::IntoIter<Vec<u8>>,
    _m: PhantomData<fn() -> C>,
}

impl<C: KeyOfSetColumn> Iterator for MockScan<C> {
    type Item = C::Element;

    fn next(&mut self) -> Option<C::Element> {
        let bytes = self.items.next()?;
        let mut d = PostcardDecoder::new(std::io::Cursor::new(bytes));
        Some(d.decode::<C::Element>(&self.plugin).expect("decoding should not fail"))
    }
}

impl KvDatabase for MockKv {
    type WriteBatch = MockWriteBatch;
    type SerializationBuffer = MockSerBuf;
    type ScanMemberIterator<C: KeyOfSetColumn> = MockScan<C>;

    fn get_wide_column<W: WideColumn, C: WideColumnValue<W>>(
        &self,
        key: &W::Key,
    ) -> Option<C> {
        let row = wide_row::<W>(&self.plugin, key);
        let d = disc_bytes::<W, C>(&self.plugin);
        let bytes = {
            let data = self.store.data.lock();
            data.get(&row).and_then(|m| m.get(&d)).cloned()
        }?;
        let mut dec = PostcardDecoder::new(std::io::Cursor::new(bytes));
        Some(dec.decode::<C>(&self.plugin).expect("decoding should not fail"))
    }

    fn scan_members<C: KeyOfSetColumn>(&self, key: &C::Key) -> MockScan<C> {
        let row = set_row::<C>(&self.plugin, key);
        let items: Vec<Vec<u8>> = {
            let data = self.store.data.lock();
            data.get(&row).map(|m| m.keys().cloned().collect()).unwrap_or_default()
        };
        MockScan { plugin: self.plugin.clone(), items: items.into_iter(), _m: PhantomData }
    }

    fn write_batch(&self) -> MockWriteBatch {
        MockWriteBatch {
            store: self.store.clone(),
            plugin: self.plugin.clone(),
            bufs: Vec::new(),
            direct: Vec::new(),
        }
    }

    fn serialization_buffer(&self) -> MockSerBuf {
        self.store.ser_bufs.fetch_add(1, Ordering::SeqCst);
        MockSerBuf { plugin: self.plugin.clone(), ops: Vec::new() }
    }
}

#[derive(Debug, Clone)]
pub struct MockKvFactory(pub Arc<Store>);

impl KvDatabaseFactory for MockKvFactory {
    type KvDatabase = MockKv;
    type Error = std::convert::Infallible;

    fn open(self, plugin: Plugin) -> Result<MockKv, Self::Error> {
        Ok(MockKv::new(self.0, plugin))
    }
}

/// helper: id of a column type
#[must_use]
pub fn column_id<T: Identifiable>() -> u128 { T::STABLE_TYPE_ID.as_u128() }
