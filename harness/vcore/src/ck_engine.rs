//! Checks C01 / C03 / C07: sequential histories judged by the from-scratch
//! oracle, the justified-execution oracle and the restart oracle.

use std::sync::Arc;

use crate::{
    Report, Tier,
    backend::{BackendA, BackendB},
    driver::{CaseResult, Evidence, drive, env_seed, write_replay},
    hist::{Case, HistCfg},
    known,
    mockkv::Store,
    prog::GenCfg,
    seq::{Outcome, run_case},
    tape::Tape,
    util::{RunError, run_paused},
};

#[derive(Debug, Clone, Copy, PartialEq, Eq)]
pub enum Which {
    A,
    B,
}

pub fn gen_cfg(tier: Tier) -> GenCfg {
    match tier {
        Tier::Quick => GenCfg::quick(),
        Tier::Thorough => GenCfg::thorough(),
    }
}

pub fn decode_case(bytes: &[u8], tier: Tier, restarts: bool, releases: bool) -> Case {
    let mut t = Tape::new(bytes);
    let mut h = HistCfg::quick();
    h.allow_restart = restarts;
    h.allow_release = releases;
    if tier == Tier::Thorough {
        h.max_steps = 60;
    }
    Case::decode(&mut t, &gen_cfg(tier), &h)
}

/// Execute one sequential case; `Err` = deadlock or panic.
pub fn exec_case(
    case: &Case,
    which: Which,
    check_c03: bool,
    raw: bool,
) -> Result<Outcome, RunError> {
    let prog = Arc::new(case.prog.clone());
    let steps = case.steps.clone();
    match which {
        Which::A => run_paused(async move {
            run_case(BackendA, prog, &steps, 0, check_c03, !raw).await.0
        }),
        Which::B => {
            let store = Arc::new(Store::new());
            let backend = BackendB::from_knobs(store, case.knobs);
            run_paused(async move {
                let (mut out, b) =
                    run_case(backend, prog, &steps, 0, check_c03, !raw).await;
                out.quiesce_timeouts += b
                    .quiesce_timeouts
                    .load(std::sync::atomic::Ordering::SeqCst)
                    as usize;
                out
            })
        }
    }
}

fn to_result(
    prop: &'static str,
    case: &Case,
    r: Result<Outcome, RunError>,
    which: Which,
) -> CaseResult {
    let mut cr = CaseResult::default();
    match r {
        Err(RunError::Deadlock) => {
            cr.violation = Some(format!(
                "[{which:?}] no task runnable and the history unfinished \
                 (deadlock / lost wake-up)"
            ));
        }
        Err(RunError::Panic(p)) => {
            cr.violation = Some(format!("[{which:?}] panic: {p}"));
        }
        Ok(out) => {
            let props: &[&str] = match prop {
                "C01" => &["C01"],
                "C03" => &["C03"],
                "C07" => &["C01", "C03", "C07"],
                _ => &[],
            };
            if let Some(v) = out.failed(props) {
                cr.violation = Some(format!("[{which:?}] {}: {}", v.prop, v.what));
            }
            cr.nontrivial = match prop {
                "C01" => out.c01_nontrivial,
                "C03" => out.c03_nontrivial,
                "C07" => out.c07_nontrivial,
                _ => false,
            };
            cr.labels = out.labels.iter().copied().collect();
            cr.counters = vec![
                ("executor_invocations", out.executions as u64),
                ("engine_aborted_starts", out.engine_aborted_starts as u64),
                ("queries", out.queries as u64),
                ("sessions", out.sessions as u64),
                ("restarts", out.restarts as u64),
                ("cutoffs_observed", out.cutoffs as u64),
                ("quiesce_timeouts", out.quiesce_timeouts as u64),
                ("steps_excluded_by_known_finding_KF1", out.kf1_defused_steps as u64),
            ];
            if cr.nontrivial {
                cr.sample = Some(case.pretty());
            }
        }
    }
    cr
}

pub fn run_bytes(prop: &'static str, bytes: &[u8], tier: Tier, which: Which) -> (Case, CaseResult) {
    let restarts = prop == "C07";
    let case = decode_case(bytes, tier, restarts, which == Which::B);
    let cr = run_struct(prop, &case, which, false);
    (case, cr)
}

pub fn run_struct(prop: &'static str, case: &Case, which: Which, raw: bool) -> CaseResult {
    let r = exec_case(case, which, prop != "C01", raw);
    to_result(prop, case, r, which)
}

/// Replay document: {property, config, raw, message, case}
pub fn replay_doc(prop: &str, which: Which, raw: bool, message: &str, case: &Case) -> serde_json::Value {
    serde_json::json!({
        "property": prop,
        "config": if which == Which::A { "A" } else { "B" },
        "raw": raw,
        "message": message,
        "case": case.to_json(),
    })
}

pub fn run_doc(prop: &'static str, doc: &serde_json::Value) -> (Case, CaseResult) {
    let which = if doc["config"].as_str() == Some("B") { Which::B } else { Which::A };
    let raw = doc["raw"].as_bool().unwrap_or(false);
    let case = Case::from_json(&doc["case"]);
    let cr = run_struct(prop, &case, which, raw);
    (case, cr)
}

fn rule(prop: &str) -> &'static str {
    match prop {
        "C01" => "case = byte string -> (acyclic program of In/Xt/Nq/Fw/Pj nodes with If/Dyn/Par/Unord/Spawned reads, history of sessions/queries/world changes); non-trivial = a session changed an input (or refreshed external input) that a previously computed node transitively depends on and that node or a dependent was queried afterwards; distinct = distinct case bytes",
        "C03" => "same cases as C01; every executor invocation judged (justified iff never completed before or some value read by its previous completed run now differs); non-trivial = a real cut-off: a previously computed node whose transitive input changed was in the demanded closure and did NOT re-execute",
        "C07" => "C01 histories with Restart steps on DbBacked<MockKv> (capacity/workers/commit placement/grouping from the case); non-trivial = a restart after at least one recomputation, followed by a query served without any executor run and by an input edit",
        _ => "",
    }
}

pub fn check(prop: &'static str, tier: Tier) -> Report {
    let seed = env_seed();
    let mut report = Report { property: prop.to_string(), ..Report::default() };
    let mut ev = Evidence::new(prop, tier.name(), seed, "exploration", rule(prop));
    ev.assumptions = vec![
        "executors are pure functions of the values they read (harness executors are)".into(),
        "every In node is set in the first session (the engine has no executor for unset inputs)".into(),
        "projection nodes read only firewall/projection nodes; unordered groups have fixed member lists".into(),
        "values are small integer vectors; 128-bit fingerprint collisions are out of scope (C13)".into(),
    ];
    let tolerated = known::tolerated(prop);
    // regression tier: replay saved cases of fixed findings and known findings
    known::replay_regressions(prop, &mut report, &|doc| run_doc(prop, doc).1);

    let plan: Vec<(Which, u64, usize)> = match (prop, tier) {
        ("C07", Tier::Quick) => vec![(Which::B, 6000, 1200)],
        ("C07", Tier::Thorough) => vec![(Which::B, 40_000, 2000)],
        (_, Tier::Quick) => vec![(Which::A, 10_000, 1200), (Which::B, 3000, 1200)],
        (_, Tier::Thorough) => {
            vec![(Which::A, 150_000, 3000), (Which::B, 40_000, 3000)]
        }
    };
    for (which, cases, max_len) in plan {
        let (stats, failure, hits) = drive(
            seed ^ (which as u64 + 1) << 40,
            cases,
            max_len,
            &tolerated,
            |bytes| run_bytes(prop, bytes, tier, which).1,
        );
        ev.stats.merge(stats);
        for (sig, n) in hits {
            ev.extra.insert(
                format!("excluded_known_finding:{sig}"),
                serde_json::json!(n),
            );
        }
        if let Some(f) = failure {
            let (case, _) = run_bytes(prop, &f.bytes, tier, which);
            let pretty = format!(
                "property {prop} config {which:?} tier {}\n{}\n{}",
                tier.name(),
                f.message,
                case.pretty()
            );
            let doc = replay_doc(prop, which, false, &f.message, &case);
            let path = write_replay(prop, &doc, &pretty);
            report.violations.push((path.display().to_string(), f.message));
            ev.violations += 1;
            break;
        }
    }
    ev.write();
    report
}

/// Replay a saved case file (JSON document written by `write_replay`).
pub fn replay(prop: &'static str, path: &str) -> Report {
    let mut report = Report { property: prop.to_string(), ..Report::default() };
    let txt = std::fs::read_to_string(path).expect("read replay file");
    let doc: serde_json::Value = serde_json::from_str(&txt).expect("replay json");
    let (case, cr) = run_doc(prop, &doc);
    println!("{}", case.pretty());
    if let Some(v) = cr.violation {
        report.violations.push((path.to_string(), v));
    }
    report
}

/// One-off helper: convert a raw byte case (config, tier, bytes...) to JSON.
pub fn convert(prop: &'static str, path: &str, raw: bool) {
    let data = std::fs::read(path).expect("read");
    let which = if data.first() == Some(&0) { Which::A } else { Which::B };
    let tier = if data.get(1) == Some(&1) { Tier::Thorough } else { Tier::Quick };
    let case = decode_case(&data[2..], tier, prop == "C07", which == Which::B);
    let doc = replay_doc(prop, which, raw, "", &case);
    let p = write_replay(prop, &doc, &case.pretty());
    println!("{}", p.display());
}
