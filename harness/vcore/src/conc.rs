//! Concurrent phases on one thread (E2): reader tasks and a writer task are
//! plain futures scheduled by the tape (`sched::Chooser`) with the engine's
//! `verif_hooks` yield/preempt points as additional interleaving points.
//! Serves C04 (snapshot isolation / session atomicity) and C02 part 1
//! (concurrent querying: soundness, single flight, termination).

use std::{
    cell::{Cell, RefCell},
    collections::BTreeMap,
    future::Future,
    pin::Pin,
    rc::Rc,
    sync::{Arc, atomic::Ordering},
};

use qbice::Engine;

use crate::{
    Report, Tier,
    backend::{Backend, BackendA, BackendB},
    driver::{CaseResult, Evidence, drive, env_seed, write_replay},
    hist::{SessOp, Step},
    known,
    mockkv::Store,
    prog::{GenCfg, Kind, Oracle, Program, Val},
    queries::{In, user_query},
    sched::{Chooser, HookMode, HookStats, SchedTape, install_controller},
    seq::{Runner, StepCtx},
    tape::Tape,
    util::{RunError, run_paused_ev},
};

#[derive(Debug, Clone, Copy, PartialEq, Eq)]
pub enum Finish {
    Commit,
    Drop,
}

#[derive(Debug, Clone, PartialEq, Eq)]
pub struct SessSpec {
    pub ops: Vec<(u32, Vec<i64>)>,
    pub fin: Finish,
}

#[derive(Debug, Clone, PartialEq, Eq)]
pub enum TaskSpec {
    /// `loops` x { tracked(); queries; drop }
    Reader { queries: Vec<u32>, loops: usize },
    Writer { sessions: Vec<SessSpec> },
}

#[derive(Debug, Clone, PartialEq, Eq)]
pub enum Phase {
    Seq(Step),
    Concurrent(Vec<TaskSpec>),
}

#[derive(Debug, Clone)]
pub struct ConcCase {
    pub prog: Program,
    pub phases: Vec<Phase>,
    pub tape: Vec<u8>,
    pub knobs: [u8; 4],
    pub use_b: bool,
}

impl ConcCase {
    pub fn pretty(&self) -> String {
        let mut s = format!(
            "config={} knobs={:?} tape={} bytes\n{}",
            if self.use_b { "B" } else { "A" },
            self.knobs,
            self.tape.len(),
            self.prog.pretty()
        );
        for (i, p) in self.phases.iter().enumerate() {
            match p {
                Phase::Seq(st) => {
                    s.push_str(&format!("#{i}: {}\n", crate::hist::pretty_step(&self.prog, st)));
                }
                Phase::Concurrent(ts) => {
                    s.push_str(&format!("#{i}: CONCURRENT\n"));
                    for t in ts {
                        s.push_str(&format!("      {t:?}\n"));
                    }
                }
            }
        }
        s
    }

    pub fn to_json(&self) -> serde_json::Value {
        use serde_json::json;
        json!({
            "use_b": self.use_b,
            "knobs": self.knobs,
            "tape": self.tape,
            "program": crate::hist::program_to_json(&self.prog),
            "phases": self.phases.iter().map(|p| match p {
                Phase::Seq(st) => json!({"seq": crate::hist::step_to_json(st)}),
                Phase::Concurrent(ts) => json!({"conc": ts.iter().map(|t| match t {
                    TaskSpec::Reader{queries, loops} => json!({"reader": {"queries": queries, "loops": loops}}),
                    TaskSpec::Writer{sessions} => json!({"writer": sessions.iter().map(|s| json!({
                        "ops": s.ops, "drop": s.fin == Finish::Drop })).collect::<Vec<_>>()}),
                }).collect::<Vec<_>>()}),
            }).collect::<Vec<_>>(),
        })
    }

    pub fn from_json(v: &serde_json::Value) -> Self {
        let k = v["knobs"].as_array().unwrap();
        let phases = v["phases"]
            .as_array()
            .unwrap()
            .iter()
            .map(|p| {
                if let Some(st) = p.get("seq") {
                    Phase::Seq(crate::hist::step_from_json(st))
                } else {
                    Phase::Concurrent(
                        p["conc"]
                            .as_array()
                            .unwrap()
                            .iter()
                            .map(|t| {
                                if let Some(r) = t.get("reader") {
                                    TaskSpec::Reader {
                                        queries: r["queries"].as_array().unwrap().iter().map(|x| x.as_u64().unwrap() as u32).collect(),
                                        loops: r["loops"].as_u64().unwrap() as usize,
                                    }
                                } else {
                                    TaskSpec::Writer {
                                        sessions: t["writer"].as_array().unwrap().iter().map(|s| SessSpec {
                                            ops: s["ops"].as_array().unwrap().iter().map(|o| (
                                                o[0].as_u64().unwrap() as u32,
                                                o[1].as_array().unwrap().iter().map(|x| x.as_i64().unwrap()).collect(),
                                            )).collect(),
                                            fin: if s["drop"].as_bool().unwrap_or(false) { Finish::Drop } else { Finish::Commit },
                                        }).collect(),
                                    }
                                }
                            })
                            .collect(),
                    )
                }
            })
            .collect();
        Self {
            use_b: v["use_b"].as_bool().unwrap_or(false),
            knobs: [k[0].as_u64().unwrap() as u8, k[1].as_u64().unwrap() as u8, k[2].as_u64().unwrap() as u8, k[3].as_u64().unwrap() as u8],
            tape: v["tape"].as_array().unwrap().iter().map(|x| x.as_u64().unwrap() as u8).collect(),
            prog: crate::hist::program_from_json(&v["program"]),
            phases,
        }
    }
}

#[derive(Debug, Clone)]
pub struct ReaderObs {
    pub task: usize,
    /// sessions finished (commit returned / session dropped) before tracked()
    /// was called
    pub lo: usize,
    /// sessions started (input_session() called) before tracked() returned
    pub hi: usize,
    pub vals: Vec<(u32, Val)>,
}

struct Ctx {
    started: usize,
    finished: usize,
    /// snapshots[k] = committed inputs after k sessions of this phase
    snapshots: Vec<BTreeMap<u32, Val>>,
    /// a reader step was polled while a session was open
    overlap: bool,
    open_sessions: usize,
}

enum Out {
    Reader(Vec<ReaderObs>),
    Writer,
}

#[derive(Debug, Default)]
pub struct ConcOutcome {
    pub violation: Option<(&'static str, String)>,
    pub overlap_with_open_session: bool,
    pub simultaneous_same_key: bool,
    pub contended_polls: u64,
    pub hook_yields: u64,
    pub concurrent_phases: u64,
    pub reader_windows_wide: u64,
    pub executions: u64,
}

fn eval_at(prog: &Program, snap: &BTreeMap<u32, Val>, node: u32) -> Val {
    let leaves = |n: u32| -> Val {
        snap.get(&n).cloned().unwrap_or_else(|| Val::from(vec![0]))
    };
    Oracle::new(prog, &leaves).node(node)
}

async fn concurrent_phase<B: Backend>(
    r: &mut Runner<B>,
    tasks: &[TaskSpec],
    tape: Rc<SchedTape>,
    out: &mut ConcOutcome,
) {
    let engine: Arc<Engine<B::C>> = r.engine.as_ref().unwrap().clone();
    let prog = r.prog.clone();
    let has_writer = tasks.iter().any(|t| matches!(t, TaskSpec::Writer { .. }));
    let ctx = Rc::new(RefCell::new(Ctx {
        started: 0,
        finished: 0,
        snapshots: vec![r.model.inputs.clone()],
        overlap: false,
        open_sessions: 0,
    }));
    let mut children: Vec<Pin<Box<dyn Future<Output = Out>>>> = Vec::new();
    for (ti, t) in tasks.iter().enumerate() {
        match t {
            TaskSpec::Reader { queries, loops } => {
                let engine = engine.clone();
                let prog = prog.clone();
                let ctx = ctx.clone();
                let queries = queries.clone();
                let loops = *loops;
                children.push(Box::pin(async move {
                    let mut obs = Vec::new();
                    for _ in 0..loops {
                        let lo = ctx.borrow().finished;
                        let te = engine.clone().tracked().await;
                        let hi = ctx.borrow().started;
                        let mut vals = Vec::new();
                        for q in &queries {
                            if ctx.borrow().open_sessions > 0 {
                                ctx.borrow_mut().overlap = true;
                            }
                            let v = user_query(&prog, &te, *q).await;
                            vals.push((*q, v));
                        }
                        drop(te);
                        obs.push(ReaderObs { task: ti, lo, hi, vals });
                    }
                    Out::Reader(obs)
                }));
            }
            TaskSpec::Writer { sessions } => {
                let engine = engine.clone();
                let ctx = ctx.clone();
                let sessions = sessions.clone();
                children.push(Box::pin(async move {
                    for sess in &sessions {
                        {
                            let mut c = ctx.borrow_mut();
                            c.started += 1;
                            c.open_sessions += 1;
                        }
                        let mut s = engine.input_session().await;
                        let mut working = ctx.borrow().snapshots.last().unwrap().clone();
                        for (n, v) in &sess.ops {
                            let v = Val::from(v.clone());
                            let _ = s.set_input(In(*n), v.clone()).await;
                            working.insert(*n, v);
                        }
                        match sess.fin {
                            Finish::Commit => s.commit().await,
                            Finish::Drop => drop(s),
                        }
                        let mut c = ctx.borrow_mut();
                        c.snapshots.push(working);
                        c.finished += 1;
                        c.open_sessions -= 1;
                    }
                    Out::Writer
                }));
            }
        }
    }
    r.sh.overlap_seen.store(false, Ordering::SeqCst);
    let (outs, _polls, contended) = Chooser::new(children, tape).await;
    out.contended_polls += contended;
    out.concurrent_phases += 1;
    let c = ctx.borrow();
    if c.overlap {
        out.overlap_with_open_session = true;
    }
    // single flight
    if r.sh.overlap_seen.load(Ordering::SeqCst) && out.violation.is_none() {
        out.violation = Some((
            "C02",
            format!(
                "query key {} was being executed by two executors at the same time",
                r.sh.overlap_node.load(Ordering::SeqCst)
            ),
        ));
    }
    // judge readers
    for o in outs {
        let Out::Reader(obs) = o else { continue };
        for ob in obs {
            let hi = ob.hi.min(c.snapshots.len() - 1);
            if hi > ob.lo {
                out.reader_windows_wide += 1;
            }
            let ok = (ob.lo..=hi).any(|k| {
                ob.vals.iter().all(|(q, v)| eval_at(&prog, &c.snapshots[k], *q) == *v)
            });
            if !ok && out.violation.is_none() {
                let expect: Vec<String> = (ob.lo..=hi)
                    .map(|k| {
                        format!(
                            "session {k}: {:?}",
                            ob.vals.iter().map(|(q, _)| eval_at(&prog, &c.snapshots[k], *q)).collect::<Vec<_>>()
                        )
                    })
                    .collect();
                out.violation = Some((
                    if has_writer { "C04" } else { "C02" },
                    format!(
                        "reader task {} (window of committed sessions [{}..{}]) received {:?}; no single committed snapshot explains these values; from-scratch: {}",
                        ob.task,
                        ob.lo,
                        hi,
                        ob.vals,
                        expect.join(" | ")
                    ),
                ));
            }
        }
    }
    // bring the sequential model up to date
    let n_sessions = c.snapshots.len() - 1;
    for k in 1..=n_sessions {
        r.model.epoch += 1;
        for (i, v) in &c.snapshots[k] {
            if c.snapshots[k - 1].get(i) != Some(v) {
                r.model.leaf_changed_epoch.insert(*i, r.model.epoch);
            }
        }
    }
    r.model.inputs = c.snapshots.last().unwrap().clone();
    r.sh.epoch.store(r.model.epoch, Ordering::SeqCst);
    drop(c);
    // the executor log: judged only when the model was constant
    r.judge_log = !has_writer;
    r.process_log(StepCtx::Query);
    r.judge_log = true;
}

pub async fn run_conc<B: Backend>(
    backend: B,
    case: &ConcCase,
    check_c03: bool,
) -> (ConcOutcome, crate::seq::Outcome) {
    let mut out = ConcOutcome::default();
    let prog = Arc::new(case.prog.clone());
    let mut r = Runner::new(backend, prog, 0);
    r.check_c03 = check_c03;
    let tape = SchedTape::new(case.tape.clone());
    let mode = Rc::new(Cell::new(HookMode::Off));
    let stats = Rc::new(HookStats::default());
    let _guard = install_controller(tape.clone(), mode.clone(), stats.clone());
    r.open().await;
    for ph in &case.phases {
        match ph {
            Phase::Seq(st) => {
                mode.set(HookMode::Off);
                r.step(st).await;
            }
            Phase::Concurrent(tasks) => {
                // known finding KF1 excluded by construction for the roots
                // requested in this phase
                let roots: Vec<u32> = tasks
                    .iter()
                    .flat_map(|t| match t {
                        TaskSpec::Reader { queries, .. } => queries.clone(),
                        TaskSpec::Writer { .. } => Vec::new(),
                    })
                    .collect();
                r.tracked = None;
                r.defuse(&roots).await;
                r.tracked = None;
                mode.set(HookMode::Interleave);
                concurrent_phase(&mut r, tasks, tape.clone(), &mut out).await;
                mode.set(HookMode::Off);
            }
        }
        if out.violation.is_some() || !r.out.violations.is_empty() {
            break;
        }
    }
    if out.violation.is_none() && r.out.violations.is_empty() {
        // every node, on a fresh tracked engine, against the last snapshot
        // (lost invalidations show here)
        for n in (0..case.prog.nodes.len() as u32).filter(|y| !case.prog.is_partial(*y)) {
            r.step(&Step::Query(n)).await;
            if !r.out.violations.is_empty() {
                break;
            }
        }
    }
    r.shutdown().await;
    r.out.kf1_defused_steps = r.kf1_defused_steps;
    out.hook_yields = stats.yielded.get();
    out.executions = r.sh.executions.load(Ordering::SeqCst) as u64;
    (out, r.out)
}

// ---------------------------------------------------------------------------
// generators
// ---------------------------------------------------------------------------

fn gen_vals(t: &mut Tape<'_>, n: usize) -> Vec<i64> {
    (0..n).map(|_| t.idx(5) as i64).collect()
}

pub fn decode_c04(bytes: &[u8], tier: Tier) -> ConcCase {
    let mut t = Tape::new(bytes);
    let knobs = [t.byte(), t.byte(), t.byte(), t.byte()];
    let use_b = t.chance(90);
    let g = GenCfg {
        min_nodes: 3,
        max_nodes: if tier == Tier::Thorough { 16 } else { 10 },
        allow_xt: false,
        allow_firewall: false,
        allow_spawn: true,
        allow_detached: false,
        allow_unord: true,
        allow_partial: true,
        max_depth: 2,
    };
    let prog = Program::decode(&mut t, &g);
    let ins = prog.ids_of(|k| k == Kind::In);
    let n = prog.nodes.len();
    let mut phases = vec![Phase::Seq(Step::Session {
        ops: ins.iter().map(|&i| SessOp::Set(i, prog.nodes[i as usize].default.clone())).collect(),
        by_drop: false,
    })];
    // warm up some nodes so that stale cached values exist
    if t.chance(200) {
        phases.push(Phase::Seq(Step::Query((n - 1) as u32)));
    }
    let rounds = 1 + t.idx(3);
    for _ in 0..rounds {
        let mut tasks = Vec::new();
        let nsess = 1 + t.idx(3);
        let mut sessions = Vec::new();
        for _ in 0..nsess {
            let nops = t.idx(4);
            let ops = (0..nops)
                .map(|_| {
                    let i = ins[t.idx(ins.len())];
                    (i, gen_vals(&mut t, prog.nslots(i)))
                })
                .collect();
            sessions.push(SessSpec {
                ops,
                fin: if t.chance(90) { Finish::Drop } else { Finish::Commit },
            });
        }
        tasks.push(TaskSpec::Writer { sessions });
        let nreaders = 1 + t.idx(4);
        for _ in 0..nreaders {
            let nq = 1 + t.idx(3);
            let queries = (0..nq)
                .map(|_| {
                    prog.queryable(if t.chance(150) { (n - 1 - t.idx(n.min(3))) as u32 } else { t.idx(n) as u32 })
                })
                .collect();
            tasks.push(TaskSpec::Reader { queries, loops: 1 + t.idx(3) });
        }
        phases.push(Phase::Concurrent(tasks));
        // a fresh reader after the writer has finished must see exactly the
        // last snapshot
        phases.push(Phase::Seq(Step::Query((n - 1) as u32)));
    }
    let tape = t.rest().to_vec();
    ConcCase { prog, phases, tape, knobs, use_b }
}

pub fn decode_c02(bytes: &[u8], tier: Tier) -> ConcCase {
    let mut t = Tape::new(bytes);
    let knobs = [t.byte(), t.byte(), t.byte(), t.byte()];
    let use_b = t.chance(70);
    let mut g = GenCfg::quick();
    g.allow_xt = false;
    g.max_nodes = if tier == Tier::Thorough { 40 } else { 16 };
    let prog = Program::decode(&mut t, &g);
    let ins = prog.ids_of(|k| k == Kind::In);
    let n = prog.nodes.len();
    let mut phases = vec![Phase::Seq(Step::Session {
        ops: ins.iter().map(|&i| SessOp::Set(i, prog.nodes[i as usize].default.clone())).collect(),
        by_drop: false,
    })];
    let rounds = 1 + t.idx(4);
    for _ in 0..rounds {
        // concurrent readers
        let ntasks = 2 + t.idx(5);
        let mut tasks = Vec::new();
        // bias: several tasks ask for the same root / overlapping roots
        let hot = (n - 1 - t.idx(n.min(4))) as u32;
        for _ in 0..ntasks {
            let nq = 1 + t.idx(3);
            let queries = (0..nq)
                .map(|_| prog.queryable(if t.chance(150) { hot } else { t.idx(n) as u32 }))
                .collect();
            tasks.push(TaskSpec::Reader { queries, loops: 1 });
        }
        phases.push(Phase::Concurrent(tasks.clone()));
        // edit the inputs, then every caller is re-queried (concurrently again
        // or sequentially)
        let nops = 1 + t.idx(3);
        let ops = (0..nops)
            .map(|_| {
                let i = ins[t.idx(ins.len())];
                SessOp::Set(i, gen_vals(&mut t, prog.nslots(i)))
            })
            .collect();
        phases.push(Phase::Seq(Step::Session { ops, by_drop: t.chance(60) }));
        if t.chance(128) {
            phases.push(Phase::Concurrent(tasks));
        }
    }
    let tape = t.rest().to_vec();
    ConcCase { prog, phases, tape, knobs, use_b }
}

// ---------------------------------------------------------------------------
// checks
// ---------------------------------------------------------------------------

pub fn exec(case: &ConcCase, check_c03: bool) -> Result<(ConcOutcome, crate::seq::Outcome), RunError> {
    let case = case.clone();
    // half of the cases let the case's tasks run between two polls of a task
    // the engine spawned (the commit of a dropped session); see run_paused_ev
    let ev = if case.knobs[2] & 1 == 1 { 1 } else { 61 };
    if case.use_b {
        let store = Arc::new(Store::new());
        let mut b = BackendB::from_knobs(store, case.knobs);
        // free-running or drained-per-step commits only: the manual gate would
        // need Release steps
        if b.mode == crate::backend::CommitMode::Manual {
            b.mode = crate::backend::CommitMode::StepDrain;
        }
        run_paused_ev(ev, async move { run_conc(b, &case, check_c03).await })
    } else {
        run_paused_ev(ev, async move { run_conc(BackendA, &case, check_c03).await })
    }
}

pub fn run_struct(prop: &'static str, case: &ConcCase) -> CaseResult {
    let mut cr = CaseResult::default();
    // the justified-execution rule (C03) is not judged in concurrent phases:
    // the engine may abort its own helper tasks (JoinSet::abort_all) between an
    // executor's completion and the publication of its result, after which the
    // executor legitimately runs again. C02 is about values, overlap, progress.
    match exec(case, false) {
        Err(RunError::Deadlock) => {
            cr.violation = Some(
                "no task runnable and the phase unfinished (deadlock / lost wake-up)".into(),
            );
        }
        Err(RunError::Panic(p)) => cr.violation = Some(format!("panic: {p}")),
        Ok((out, seq_out)) => {
            if let Some((p, what)) = &out.violation {
                cr.violation = Some(format!("{p}: {what}"));
            } else if let Some(v) = seq_out.violations.first() {
                cr.violation = Some(format!("{}: {}", v.prop, v.what));
            }
            cr.nontrivial = match prop {
                "C04" => out.overlap_with_open_session,
                _ => out.contended_polls > 0 && out.hook_yields > 0,
            };
            cr.labels = vec![];
            if case.use_b {
                cr.labels.push("config_B");
            }
            if out.reader_windows_wide > 0 {
                cr.labels.push("reader_window_spans_a_session");
            }
            cr.counters = vec![
                ("concurrent_phases", out.concurrent_phases),
                ("contended_polls", out.contended_polls),
                ("hook_yields", out.hook_yields),
                ("executor_invocations", out.executions),
                ("steps_excluded_by_known_finding_KF1", seq_out.kf1_defused_steps as u64),
            ];
            if cr.nontrivial {
                cr.sample = Some(case.pretty());
            }
        }
    }
    cr
}

pub fn check(prop: &'static str, tier: Tier) -> Report {
    let seed = env_seed();
    let mut report = Report { property: prop.into(), ..Report::default() };
    let rule = match prop {
        "C04" => "case = In/Nq program x phases: one writer task (1..3 sessions of 0..3 set_input each, commit() or drop) concurrently with 1..4 reader tasks (loops of tracked(); 1..3 queries; drop), all scheduled on one thread by the schedule tape at every await and at the verif_hooks yield/preempt points (incl. the windows between new batch / epoch bump / phase-lock wait of input_session() and phase-lock / timestamp load of tracked()); in half of the cases (knob bit) the runtime polls the case between any two polls of an engine-spawned task (event_interval 1), so readers also run inside the commit task of a dropped session; oracle: all values of one tracked engine equal the from-scratch values of ONE committed snapshot k with lo <= k <= hi, plus a fresh reader after each concurrent phase; progress by the idle-runtime oracle; non-trivial = a reader query was issued while a session was open; distinct = distinct case bytes",
        _ => "case = full program (no external inputs) x rounds of 2..6 concurrent reader tasks over overlapping roots scheduled by the tape + hooks, each round followed by an input edit and a re-query; oracle: from-scratch values for every user value and every dependency read, per-key executor overlap detector (single flight), idle-runtime termination oracle, final re-query of every node; non-trivial = at least one poll with more than one runnable task and at least one hook yield; distinct = distinct case bytes",
    };
    let mut ev = Evidence::new(prop, tier.name(), seed, "exploration", rule);
    ev.assumptions = vec![
        "schedules are explored at awaits and hook points only (a subset of the real multi-threaded schedules); code between two points runs atomically".into(),
        "a task never awaits input_session() while holding a tracked engine; at most one session is open (documented preconditions)".into(),
    ];
    known::replay_regressions(prop, &mut report, &|doc| {
        run_struct(prop, &ConcCase::from_json(&doc["case"]))
    });
    let (cases, max_len) = match (prop, tier) {
        ("C04", Tier::Quick) => (12_000, 700),
        ("C04", Tier::Thorough) => (150_000, 1200),
        (_, Tier::Quick) => (9000, 1200),
        (_, Tier::Thorough) => (80_000, 2500),
    };
    let dec = move |b: &[u8]| if prop == "C04" { decode_c04(b, tier) } else { decode_c02(b, tier) };
    let (stats, failure, _) = drive(seed, cases, max_len, &[], |bytes| {
        run_struct(prop, &dec(bytes))
    });
    ev.stats.merge(stats);
    if prop == "C02" && failure.is_none() {
        set_stress(tier, seed, &mut report, &mut ev);
    }
    if let Some(f) = failure {
        let case = dec(&f.bytes);
        let doc = serde_json::json!({"property": prop, "message": f.message, "case": case.to_json()});
        let path = write_replay(prop, &doc, &format!("{}\n{}", f.message, case.pretty()));
        report.violations.push((path.display().to_string(), f.message));
        ev.violations += 1;
    }
    ev.write();
    report
}

pub fn replay(prop: &'static str, path: &str) -> Report {
    let mut report = Report { property: prop.into(), ..Report::default() };
    let doc: serde_json::Value =
        serde_json::from_str(&std::fs::read_to_string(path).expect("read")).expect("json");
    if doc["part"].as_str() == Some("set_stress") {
        // a thread plan of part 3: probabilistic, so it is run many times
        use crate::ck_sets::{InMemoryKos, SetPlan, run_plan};
        type Dash = Arc<dashmap::DashSet<u32, fxhash::FxBuildHasher>>;
        let bytes: Vec<u8> = doc["bytes"]
            .as_array()
            .map(|a| a.iter().map(|x| x.as_u64().unwrap_or(0) as u8).collect())
            .unwrap_or_default();
        let plan = SetPlan::decode(&mut Tape::new(&bytes));
        println!("{plan:#?}");
        for _ in 0..300 {
            let cr = match doc["set"].as_str() {
                Some("dashset") => run_plan::<Dash>(&plan),
                Some("in_memory_key_of_set_map") => run_plan::<InMemoryKos>(&plan),
                #[cfg(feature = "hooks")]
                _ => run_plan::<qbice::engine::verif::VerifBackwardEdgeSet>(&plan),
                #[cfg(not(feature = "hooks"))]
                _ => CaseResult::default(),
            };
            if let Some(v) = cr.violation {
                report.violations.push((path.to_string(), v));
                break;
            }
        }
        return report;
    }
    let case = ConcCase::from_json(&doc["case"]);
    println!("{}", case.pretty());
    if let Some(v) = run_struct(prop, &case).violation {
        report.violations.push((path.to_string(), v));
    }
    report
}

/// C02 part 3: the backward-edge set (and `Arc<DashSet>`) under real threads.
fn set_stress(tier: Tier, seed: u64, report: &mut Report, ev: &mut Evidence) {
    use crate::ck_sets::{SetPlan, run_plan};
    let cases = if tier == Tier::Thorough { 8000 } else { 800 };
    crate::driver::SHARDS_OVERRIDE.with(|s| s.set(Some(2)));
    type Dash = Arc<dashmap::DashSet<u32, fxhash::FxBuildHasher>>;
    let tolerated = known::tolerated("C02");
    let mut runs: Vec<(&str, Box<dyn Fn(&[u8]) -> CaseResult + Sync>)> = Vec::new();
    #[cfg(feature = "hooks")]
    runs.push((
        "backward_edge_set",
        Box::new(|b: &[u8]| {
            let mut t = Tape::new(b);
            run_plan::<qbice::engine::verif::VerifBackwardEdgeSet>(&SetPlan::decode(&mut t))
        }),
    ));
    runs.push((
        "dashset",
        Box::new(|b: &[u8]| {
            let mut t = Tape::new(b);
            run_plan::<Dash>(&SetPlan::decode(&mut t))
        }),
    ));
    runs.push((
        "in_memory_key_of_set_map",
        Box::new(|b: &[u8]| {
            let mut t = Tape::new(b);
            run_plan::<crate::ck_sets::InMemoryKos>(&SetPlan::decode(&mut t))
        }),
    ));
    for (name, f) in runs {
        let (mut stats, failure, hits) =
            crate::driver::drive_opts(seed ^ 0x5e7, cases, 300, &tolerated, 100, 400, f);
        // keep the evidence of the parts apart
        let evals = stats.evaluations;
        stats.labels.insert(format!("set_stress_plans:{name}"), evals);
        ev.stats.merge(stats);
        for (sig, n) in hits {
            ev.extra.insert(format!("excluded_known_finding:{sig}"), serde_json::json!(n));
            if let Some(k) = known::is_known("C02", &sig) {
                let line = format!("KNOWN-FINDING: property=C02 {}", k.what);
                if !report.known.contains(&line) {
                    report.known.push(line);
                }
            }
        }
        if let Some(fl) = failure {
            let mut t = Tape::new(&fl.bytes);
            let plan = SetPlan::decode(&mut t);
            let doc = serde_json::json!({"property": "C02", "part": "set_stress", "set": name,
                "message": fl.message, "bytes": fl.bytes, "plan": format!("{plan:?}")});
            let path = write_replay("C02", &doc, &format!("{}\n{plan:#?}", fl.message));
            report.violations.push((path.display().to_string(), fl.message));
            ev.violations += 1;
        }
    }
    crate::driver::SHARDS_OVERRIDE.with(|s| s.set(None));
}
