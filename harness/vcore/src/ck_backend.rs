//! Check C11: store backends honour the key-value contract and isolate keys.
//!
//! A typed column zoo (wide columns with both discriminant encodings, several
//! key shapes, two value types per key; key-of-set columns) is driven by
//! generated histories of batches (direct or through serialization buffers,
//! committed or dropped), reads, scans and reopen, against typed reference
//! maps. The runner is generic over `KvDatabase`; MockKv runs here, RocksDB
//! and Fjall in the `vbackends` binary.

use std::collections::{BTreeMap, BTreeSet};

use qbice::{Decode, Encode, Identifiable, query::QueryID};
use qbice_stable_hash::Compact128;
use qbice_stable_type_id::StableTypeID;
use qbice_storage::kv_database::{
    DiscriminantEncoding, KeyOfSetColumn, KvDatabase, SerializationBuffer, WideColumn,
    WideColumnValue, WriteBatch,
};

use crate::{driver::CaseResult, tape::Tape};

// --------------------------- values ---------------------------------------

#[derive(Debug, Clone, PartialEq, Eq, Encode, Decode)]
pub struct V1(pub u32);
#[derive(Debug, Clone, PartialEq, Eq, Encode, Decode)]
pub struct V2(pub Vec<u8>);

#[derive(Debug, Clone, Copy, PartialEq, Eq, Hash, Encode, Decode)]
pub enum Which {
    Input,
    Result,
}

macro_rules! wide {
    ($name:ident, $key:ty, $enc:expr) => {
        #[derive(Debug, Clone, Copy, PartialEq, Eq, Hash, Identifiable)]
        pub struct $name;
        impl WideColumn for $name {
            type Key = $key;
            type Discriminant = u8;
            fn discriminant_encoding() -> DiscriminantEncoding { $enc }
        }
        impl WideColumnValue<$name> for V1 {
            fn discriminant() -> u8 { 0 }
        }
        impl WideColumnValue<$name> for V2 {
            fn discriminant() -> u8 { 1 }
        }
    };
}
use DiscriminantEncoding::{Prefixed, Suffixed};
wide!(WUnitP, (), Prefixed);
wide!(WU8P, u8, Prefixed);
wide!(WU8S, u8, Suffixed);
wide!(WU64S, u64, Suffixed);
wide!(WStrP, String, Prefixed);
wide!(WStrS, String, Suffixed);
wide!(WBytesP, Vec<u8>, Prefixed);
wide!(WBytesS, Vec<u8>, Suffixed);
wide!(WPairS, (u8, Vec<u8>), Suffixed);
wide!(WOptP, Option<Vec<u8>>, Prefixed);
wide!(WNestS, Vec<Vec<u8>>, Suffixed);

/// like the engine's query store: discriminant = (type id, enum)
#[derive(Debug, Clone, Copy, PartialEq, Eq, Hash, Identifiable)]
pub struct WStoreP;
impl WideColumn for WStoreP {
    type Key = Compact128;
    type Discriminant = (StableTypeID, Which);
    fn discriminant_encoding() -> DiscriminantEncoding { Prefixed }
}
impl WideColumnValue<WStoreP> for V1 {
    fn discriminant() -> (StableTypeID, Which) { (u8::STABLE_TYPE_ID, Which::Input) }
}
impl WideColumnValue<WStoreP> for V2 {
    fn discriminant() -> (StableTypeID, Which) { (u8::STABLE_TYPE_ID, Which::Result) }
}

/// unit discriminant, one value type
#[derive(Debug, Clone, Copy, PartialEq, Eq, Hash, Identifiable)]
pub struct WUnitDisc;
impl WideColumn for WUnitDisc {
    type Key = Vec<u8>;
    type Discriminant = ();
    fn discriminant_encoding() -> DiscriminantEncoding { Suffixed }
}
impl WideColumnValue<WUnitDisc> for V1 {
    fn discriminant() {}
}

macro_rules! setcol {
    ($name:ident, $key:ty, $el:ty) => {
        #[derive(Debug, Clone, Copy, PartialEq, Eq, Hash, Identifiable)]
        pub struct $name;
        impl KeyOfSetColumn for $name {
            type Key = $key;
            type Element = $el;
        }
    };
}
setcol!(SBytes, Vec<u8>, Vec<u8>);
setcol!(SStr, String, u32);
setcol!(SUnit, (), ());
setcol!(SQid, QueryID, QueryID);
setcol!(SU8, u8, Vec<u8>);

// --------------------------- generated keys --------------------------------

/// byte strings that are prefixes / extensions of one another, empty, 0xFF /
/// 0x00 heavy, multi-kilobyte
fn bytes_pool(t: &mut Tape<'_>) -> Vec<u8> {
    // keys whose scan bound needs a carry (`.. x FF` -> `.. x+1`), next to
    // keys of the same length that sort just above that bound
    if t.chance(64) {
        return match t.idx(10) {
            0 => vec![5, 0xFF],
            1 => vec![6, 0x10],
            2 => vec![6, 0xFE],
            3 => vec![6],
            4 => vec![0x41, 0xFF, 0xFF],
            5 => vec![0x42, 0x00, 0x07],
            6 => vec![0x42, 0xFF, 0xFE],
            7 => vec![0xFE, 0xFF],
            8 => vec![0xFF, 0x00],
            _ => vec![5, 0xFE],
        };
    }
    match t.idx(14) {
        0 => vec![],
        1 => b"a".to_vec(),
        2 => b"ab".to_vec(),
        3 => b"abc".to_vec(),
        4 => vec![0xFF],
        5 => vec![0xFF, 0xFF],
        6 => vec![0xFF; 9],
        7 => vec![0],
        8 => vec![0, 0],
        9 => vec![1, 0, 0, 0, 0, 0, 0, 0, 0x61], // looks like a length prefix + 'a'
        10 => vec![0x61; 4096],
        11 => vec![0x61; 4097],
        12 => vec![1, b'a'],
        _ => (0..t.idx(4)).map(|_| [0u8, 1, 0x61, 0xFF][t.idx(4)]).collect(),
    }
}

#[derive(Debug, Clone, PartialEq, Eq, PartialOrd, Ord)]
pub enum WKey {
    Unit,
    U8P(u8),
    U8S(u8),
    U64(u64),
    StrP(String),
    StrS(String),
    BytesP(Vec<u8>),
    BytesS(Vec<u8>),
    Pair(u8, Vec<u8>),
    Opt(Option<Vec<u8>>),
    Nest(Vec<Vec<u8>>),
    Store(u128),
    UnitDisc(Vec<u8>),
}

fn gen_wkey(t: &mut Tape<'_>) -> WKey {
    let s = |t: &mut Tape<'_>| -> String {
        ["", "a", "ab", "abc", "\u{0}", "a\u{0}", "\u{7f}", "\u{80}"][t.idx(8)].to_string()
    };
    match t.idx(13) {
        0 => WKey::Unit,
        1 => WKey::U8P([0u8, 1, 127, 128, 255][t.idx(5)]),
        2 => WKey::U8S([0u8, 1, 127, 128, 255][t.idx(5)]),
        3 => WKey::U64([0u64, 1, 127, 128, 16383, 16384, u64::MAX][t.idx(7)]),
        4 => WKey::StrP(s(t)),
        5 => WKey::StrS(s(t)),
        6 => WKey::BytesP(bytes_pool(t)),
        7 => WKey::BytesS(bytes_pool(t)),
        8 => WKey::Pair([0u8, 1, 255][t.idx(3)], bytes_pool(t)),
        9 => WKey::Opt(if t.chance(60) { None } else { Some(bytes_pool(t)) }),
        10 => WKey::Nest((0..t.idx(3)).map(|_| bytes_pool(t)).collect()),
        11 => WKey::Store([0u128, 1, u128::MAX, 1 << 64][t.idx(4)]),
        _ => WKey::UnitDisc(bytes_pool(t)),
    }
}

#[derive(Debug, Clone, PartialEq, Eq, PartialOrd, Ord)]
pub enum SKey {
    Bytes(Vec<u8>),
    Str(String),
    Unit,
    Qid(u8, u8),
    U8(u8),
}

#[derive(Debug, Clone, PartialEq, Eq, PartialOrd, Ord)]
pub enum SElem {
    Bytes(Vec<u8>),
    U32(u32),
    Unit,
    Qid(u8, u8),
}

fn qid(a: u8, b: u8) -> QueryID {
    QueryID::from_parts(Compact128::from(u128::from(a)), Compact128::from(u128::from(b)))
}

fn gen_skey(t: &mut Tape<'_>) -> (SKey, SElem) {
    match t.idx(5) {
        0 => (SKey::Bytes(bytes_pool(t)), SElem::Bytes(bytes_pool(t))),
        1 => (
            SKey::Str(["", "a", "ab", "b"][t.idx(4)].to_string()),
            SElem::U32([0u32, 1, 127, 128, 300, u32::MAX][t.idx(6)]),
        ),
        2 => (SKey::Unit, SElem::Unit),
        3 => (SKey::Qid(t.idx(3) as u8, t.idx(3) as u8), SElem::Qid(t.idx(3) as u8, t.idx(3) as u8)),
        _ => (SKey::U8([0u8, 1, 255][t.idx(3)]), SElem::Bytes(bytes_pool(t))),
    }
}

#[derive(Debug, Clone, PartialEq, Eq)]
pub enum BOp {
    Put1(WKey, u32),
    Put2(WKey, Vec<u8>),
    Del1(WKey),
    Del2(WKey),
    Ins(SKey, SElem),
    Rem(SKey, SElem),
}

#[derive(Debug, Clone, PartialEq, Eq)]
pub enum HOp {
    Batch { ops: Vec<BOp>, via_buffer: bool, commit: bool },
    Reopen,
    CheckAll,
}

#[derive(Debug, Clone)]
pub struct BPlan {
    pub ops: Vec<HOp>,
}

impl BPlan {
    pub fn decode(t: &mut Tape<'_>) -> Self {
        let n = 3 + t.idx(22);
        let mut ops = Vec::new();
        for _ in 0..n {
            match t.weighted(&[200, 20, 36]) {
                0 => {
                    let k = 1 + t.idx(10);
                    let mut b = Vec::new();
                    for _ in 0..k {
                        b.push(match t.weighted(&[50, 40, 14, 14, 70, 30]) {
                            0 => BOp::Put1(gen_wkey(t), t.idx(1000) as u32),
                            1 => BOp::Put2(gen_wkey(t), bytes_pool(t)),
                            2 => BOp::Del1(gen_wkey(t)),
                            3 => BOp::Del2(gen_wkey(t)),
                            4 => {
                                let (k, e) = gen_skey(t);
                                BOp::Ins(k, e)
                            }
                            _ => {
                                let (k, e) = gen_skey(t);
                                BOp::Rem(k, e)
                            }
                        });
                    }
                    ops.push(HOp::Batch { ops: b, via_buffer: t.chance(128), commit: !t.chance(40) });
                }
                1 => ops.push(HOp::Reopen),
                _ => ops.push(HOp::CheckAll),
            }
        }
        ops.push(HOp::CheckAll);
        ops.push(HOp::Reopen);
        ops.push(HOp::CheckAll);
        Self { ops }
    }
}

#[derive(Debug, Default, Clone)]
pub struct BModel {
    pub v1: BTreeMap<WKey, u32>,
    pub v2: BTreeMap<WKey, Vec<u8>>,
    pub sets: BTreeMap<SKey, BTreeSet<SElem>>,
}

macro_rules! with_wide {
    ($key:expr, |$col:ident, $k:ident| $body:expr) => {
        match $key {
            WKey::Unit => { type $col = WUnitP; let $k = &(); $body }
            WKey::U8P(x) => { type $col = WU8P; let $k = x; $body }
            WKey::U8S(x) => { type $col = WU8S; let $k = x; $body }
            WKey::U64(x) => { type $col = WU64S; let $k = x; $body }
            WKey::StrP(x) => { type $col = WStrP; let $k = x; $body }
            WKey::StrS(x) => { type $col = WStrS; let $k = x; $body }
            WKey::BytesP(x) => { type $col = WBytesP; let $k = x; $body }
            WKey::BytesS(x) => { type $col = WBytesS; let $k = x; $body }
            WKey::Pair(a, b) => { type $col = WPairS; let tmp = (*a, b.clone()); let $k = &tmp; $body }
            WKey::Opt(x) => { type $col = WOptP; let $k = x; $body }
            WKey::Nest(x) => { type $col = WNestS; let $k = x; $body }
            WKey::Store(x) => { type $col = WStoreP; let tmp = Compact128::from(*x); let $k = &tmp; $body }
            WKey::UnitDisc(_) => unreachable!("handled separately"),
        }
    };
}

trait Sink {
    fn put<W: WideColumn, C: WideColumnValue<W>>(&mut self, key: &W::Key, value: &C);
    fn delete<W: WideColumn, C: WideColumnValue<W>>(&mut self, key: &W::Key);
    fn insert_member<C: KeyOfSetColumn>(&mut self, key: &C::Key, value: &C::Element);
    fn delete_member<C: KeyOfSetColumn>(&mut self, key: &C::Key, value: &C::Element);
}

struct Direct<'a, B: WriteBatch>(&'a mut B);
impl<B: WriteBatch> Sink for Direct<'_, B> {
    fn put<W: WideColumn, C: WideColumnValue<W>>(&mut self, key: &W::Key, value: &C) { self.0.put::<W, C>(key, value); }
    fn delete<W: WideColumn, C: WideColumnValue<W>>(&mut self, key: &W::Key) { self.0.delete::<W, C>(key); }
    fn insert_member<C: KeyOfSetColumn>(&mut self, key: &C::Key, value: &C::Element) { self.0.insert_member::<C>(key, value); }
    fn delete_member<C: KeyOfSetColumn>(&mut self, key: &C::Key, value: &C::Element) { self.0.delete_member::<C>(key, value); }
}
struct Buffered<'a, S: SerializationBuffer>(&'a mut S);
impl<S: SerializationBuffer> Sink for Buffered<'_, S> {
    fn put<W: WideColumn, C: WideColumnValue<W>>(&mut self, key: &W::Key, value: &C) { self.0.put::<W, C>(key, value); }
    fn delete<W: WideColumn, C: WideColumnValue<W>>(&mut self, key: &W::Key) { self.0.delete::<W, C>(key); }
    fn insert_member<C: KeyOfSetColumn>(&mut self, key: &C::Key, value: &C::Element) { self.0.insert_member::<C>(key, value); }
    fn delete_member<C: KeyOfSetColumn>(&mut self, key: &C::Key, value: &C::Element) { self.0.delete_member::<C>(key, value); }
}

fn apply_op<S: Sink>(s: &mut S, op: &BOp) {
    match op {
        BOp::Put1(WKey::UnitDisc(k), v) => s.put::<WUnitDisc, V1>(k, &V1(*v)),
        BOp::Del1(WKey::UnitDisc(k)) => s.delete::<WUnitDisc, V1>(k),
        // the unit-discriminant column has a single value type
        BOp::Put2(WKey::UnitDisc(_), _) | BOp::Del2(WKey::UnitDisc(_)) => {}
        BOp::Put1(k, v) => with_wide!(k, |W, kk| s.put::<W, V1>(kk, &V1(*v))),
        BOp::Put2(k, v) => with_wide!(k, |W, kk| s.put::<W, V2>(kk, &V2(v.clone()))),
        BOp::Del1(k) => with_wide!(k, |W, kk| s.delete::<W, V1>(kk)),
        BOp::Del2(k) => with_wide!(k, |W, kk| s.delete::<W, V2>(kk)),
        BOp::Ins(k, e) | BOp::Rem(k, e) => {
            let ins = matches!(op, BOp::Ins(..));
            match (k, e) {
                (SKey::Bytes(k), SElem::Bytes(e)) => if ins { s.insert_member::<SBytes>(k, e) } else { s.delete_member::<SBytes>(k, e) },
                (SKey::Str(k), SElem::U32(e)) => if ins { s.insert_member::<SStr>(k, e) } else { s.delete_member::<SStr>(k, e) },
                (SKey::Unit, SElem::Unit) => if ins { s.insert_member::<SUnit>(&(), &()) } else { s.delete_member::<SUnit>(&(), &()) },
                (SKey::Qid(a, b), SElem::Qid(c, d)) => if ins { s.insert_member::<SQid>(&qid(*a, *b), &qid(*c, *d)) } else { s.delete_member::<SQid>(&qid(*a, *b), &qid(*c, *d)) },
                (SKey::U8(k), SElem::Bytes(e)) => if ins { s.insert_member::<SU8>(k, e) } else { s.delete_member::<SU8>(k, e) },
                _ => {}
            }
        }
    }
}

fn apply_model(m: &mut BModel, op: &BOp) {
    match op {
        BOp::Put2(WKey::UnitDisc(_), _) | BOp::Del2(WKey::UnitDisc(_)) => {}
        BOp::Put1(k, v) => { m.v1.insert(k.clone(), *v); }
        BOp::Put2(k, v) => { m.v2.insert(k.clone(), v.clone()); }
        BOp::Del1(k) => { m.v1.remove(k); }
        BOp::Del2(k) => { m.v2.remove(k); }
        BOp::Ins(k, e) => {
            if compatible(k, e) { m.sets.entry(k.clone()).or_default().insert(e.clone()); }
        }
        BOp::Rem(k, e) => {
            if let Some(s) = m.sets.get_mut(k) { s.remove(e); }
        }
    }
}

fn compatible(k: &SKey, e: &SElem) -> bool {
    matches!(
        (k, e),
        (SKey::Bytes(_), SElem::Bytes(_)) | (SKey::Str(_), SElem::U32(_)) | (SKey::Unit, SElem::Unit)
            | (SKey::Qid(..), SElem::Qid(..)) | (SKey::U8(_), SElem::Bytes(_))
    )
}

fn read1<D: KvDatabase>(db: &D, k: &WKey) -> Option<u32> {
    match k {
        WKey::UnitDisc(k) => db.get_wide_column::<WUnitDisc, V1>(k).map(|v| v.0),
        _ => with_wide!(k, |W, kk| db.get_wide_column::<W, V1>(kk).map(|v| v.0)),
    }
}
fn read2<D: KvDatabase>(db: &D, k: &WKey) -> Option<Vec<u8>> {
    match k {
        WKey::UnitDisc(_) => None,
        _ => with_wide!(k, |W, kk| db.get_wide_column::<W, V2>(kk).map(|v| v.0)),
    }
}
fn scan<D: KvDatabase>(db: &D, k: &SKey) -> Vec<SElem> {
    match k {
        SKey::Bytes(k) => db.scan_members::<SBytes>(k).map(SElem::Bytes).collect(),
        SKey::Str(k) => db.scan_members::<SStr>(k).map(SElem::U32).collect(),
        SKey::Unit => db.scan_members::<SUnit>(&()).map(|()| SElem::Unit).collect(),
        SKey::Qid(a, b) => db
            .scan_members::<SQid>(&qid(*a, *b))
            .map(|q| SElem::Qid(q.compact_stable_type_id().to_u128() as u8, q.hash_128() as u8))
            .collect(),
        SKey::U8(k) => db.scan_members::<SU8>(k).map(SElem::Bytes).collect(),
    }
}

fn check_all<D: KvDatabase>(
    db: &D,
    m: &BModel,
    wkeys: &BTreeSet<WKey>,
    skeys: &BTreeSet<SKey>,
    when: &str,
) -> Option<String> {
    for k in wkeys {
        let g1 = read1(db, k);
        if g1 != m.v1.get(k).copied() {
            return Some(format!("{when}: point read {k:?} (value type 1) = {g1:?}, last committed is {:?}", m.v1.get(k)));
        }
        let g2 = read2(db, k);
        if g2.as_ref() != m.v2.get(k) {
            return Some(format!(
                "{when}: point read {k:?} (value type 2) = {:?}, last committed is {:?}",
                g2.as_ref().map(Vec::len),
                m.v2.get(k).map(Vec::len)
            ));
        }
    }
    for k in skeys {
        let got = scan(db, k);
        let set: BTreeSet<SElem> = got.iter().cloned().collect();
        if set.len() != got.len() {
            return Some(format!("{when}: member scan of {k:?} yields duplicates ({} items, {} distinct)", got.len(), set.len()));
        }
        let want = m.sets.get(k).cloned().unwrap_or_default();
        if set != want {
            let extra: Vec<_> = set.difference(&want).take(3).collect();
            let missing: Vec<_> = want.difference(&set).take(3).collect();
            return Some(format!(
                "{when}: member scan of {k:?}: {} members, committed {} (leaked in from elsewhere: {extra:?}; missing: {missing:?})",
                set.len(),
                want.len()
            ));
        }
    }
    None
}

/// Run one history. `open` must open the same persistent store again (after
/// every clone of the previous handle has been dropped).
pub fn run_history<D: KvDatabase>(plan: &BPlan, open: &dyn Fn() -> D) -> CaseResult {
    let mut cr = CaseResult::default();
    let mut db = Some(open());
    let mut model = BModel::default();
    let mut wkeys: BTreeSet<WKey> = BTreeSet::new();
    let mut skeys: BTreeSet<SKey> = BTreeSet::new();
    let mut reopened_with_data = false;
    for (i, op) in plan.ops.iter().enumerate() {
        match op {
            HOp::Batch { ops, via_buffer, commit } => {
                let d = db.as_ref().unwrap();
                let mut wb = d.write_batch();
                if *via_buffer {
                    let mut sb = d.serialization_buffer();
                    for o in ops {
                        apply_op(&mut Buffered(&mut sb), o);
                    }
                    wb.consume_serialization_buffer(sb);
                } else {
                    for o in ops {
                        apply_op(&mut Direct(&mut wb), o);
                    }
                }
                for o in ops {
                    match o {
                        BOp::Put1(k, _) | BOp::Put2(k, _) | BOp::Del1(k) | BOp::Del2(k) => {
                            wkeys.insert(k.clone());
                        }
                        BOp::Ins(k, e) | BOp::Rem(k, e) => {
                            if compatible(k, e) {
                                skeys.insert(k.clone());
                            }
                        }
                    }
                }
                // an uncommitted batch is invisible
                if let Some(v) = check_all(d, &model, &wkeys, &skeys, &format!("op #{i}, batch built but not committed")) {
                    cr.violation = Some(v);
                    return cr;
                }
                if *commit {
                    wb.commit();
                    for o in ops {
                        apply_model(&mut model, o);
                    }
                } else {
                    drop(wb);
                }
                if let Some(v) = check_all(d, &model, &wkeys, &skeys, &format!("op #{i}, after {}", if *commit { "commit" } else { "dropping the batch" })) {
                    cr.violation = Some(v);
                    return cr;
                }
            }
            HOp::Reopen => {
                drop(db.take());
                db = Some(open());
                if !model.v1.is_empty() || !model.sets.is_empty() {
                    reopened_with_data = true;
                }
                if let Some(v) = check_all(db.as_ref().unwrap(), &model, &wkeys, &skeys, &format!("op #{i}, after reopen")) {
                    cr.violation = Some(v);
                    return cr;
                }
            }
            HOp::CheckAll => {
                if let Some(v) = check_all(db.as_ref().unwrap(), &model, &wkeys, &skeys, &format!("op #{i}")) {
                    cr.violation = Some(v);
                    return cr;
                }
            }
        }
    }
    // non-trivial: two live logical keys with prefix-related encodings / an
    // empty encoding / two value types under one key
    let both = model.v1.keys().any(|k| model.v2.contains_key(k));
    let empties = wkeys.iter().any(|k| match k { WKey::Unit => true, WKey::BytesP(b) | WKey::BytesS(b) => b.is_empty(), _ => false })
        || skeys.iter().any(|k| match k { SKey::Unit => true, SKey::Bytes(b) => b.is_empty(), _ => false });
    let live_bytes: Vec<&Vec<u8>> = model.sets.iter().filter(|(_, s)| !s.is_empty()).filter_map(|(k, _)| match k { SKey::Bytes(b) => Some(b), _ => None }).collect();
    let prefix_related = live_bytes.iter().any(|a| live_bytes.iter().any(|b| a != b && b.starts_with(a)));
    cr.nontrivial = both || empties || prefix_related;
    if prefix_related {
        cr.labels.push("live_set_keys_prefix_related");
    }
    if both {
        cr.labels.push("two_value_types_under_one_key");
    }
    if empties {
        cr.labels.push("empty_key_encoding");
    }
    if reopened_with_data {
        cr.labels.push("reopened_with_data");
    }
    cr.counters = vec![("history_ops", plan.ops.len() as u64), ("wide_keys", wkeys.len() as u64), ("set_keys", skeys.len() as u64)];
    if cr.nontrivial {
        cr.sample = Some(format!("{:?}", &plan.ops[..plan.ops.len().min(3)]).chars().take(600).collect());
    }
    cr
}

pub const RULE: &str = "case = history over a typed column zoo: 13 wide columns (keys (), u8, u64, String, Vec<u8>, (u8,Vec<u8>), Option<Vec<u8>>, Vec<Vec<u8>>, Compact128; prefixed and suffixed discriminants; discriminants u8, (), (StableTypeID, enum); two value types per key) and 5 key-of-set columns (incl. (), QueryID, byte strings), keys/elements drawn to be prefixes/extensions of one another, empty, 0xFF/0x00-heavy, length-prefix look-alikes, 4 KiB; ops: batches of put/delete/insert-member/delete-member built directly or through a serialization buffer, committed or dropped, full comparison of every touched key after each step, reopen (all handles dropped). Oracle: typed reference maps: point read = last committed value of exactly that (column, key, value type); scan = exactly the committed members of exactly that key, no duplicates; uncommitted batches invisible; content survives reopen. non-trivial = two live set keys with prefix-related encodings, or an empty encoding, or two value types live under one key; distinct = distinct case bytes";

/// One backend under test: `mk()` creates a fresh, empty persistent store and
/// returns an opener for it (each call reopens the same store) plus a cleanup.
pub trait BackendUnderTest: Sync {
    type Db: KvDatabase;
    fn name(&self) -> &'static str;
    fn fresh(&self) -> (Box<dyn Fn() -> Self::Db>, Box<dyn FnOnce()>);
}

pub struct MockBackend;
impl BackendUnderTest for MockBackend {
    type Db = crate::mockkv::MockKv;
    fn name(&self) -> &'static str { "MockKv" }
    fn fresh(&self) -> (Box<dyn Fn() -> Self::Db>, Box<dyn FnOnce()>) {
        let store = std::sync::Arc::new(crate::mockkv::Store::new());
        (
            Box::new(move || crate::mockkv::MockKv::new(store.clone(), qbice_serialize::Plugin::default())),
            Box::new(|| {}),
        )
    }
}

pub fn run_bytes<B: BackendUnderTest>(b: &B, bytes: &[u8]) -> CaseResult {
    let plan = BPlan::decode(&mut Tape::new(bytes));
    let (open, cleanup) = b.fresh();
    let cr = run_history(&plan, &*open);
    drop(open);
    cleanup();
    cr
}

pub fn check_backend<B: BackendUnderTest>(tier: crate::Tier, b: &B, cases: u64) -> crate::Report {
    use crate::{
        Report,
        driver::{Evidence, drive, env_seed, write_replay},
    };
    let prop = "C11";
    let seed = env_seed();
    let mut report = Report { property: prop.into(), ..Report::default() };
    let mut ev = Evidence::new(prop, tier.name(), seed, "exploration", RULE);
    ev.assumptions = vec!["backends: MockKv (the stand-in used by the engine-level checks) is run by vcheck; RocksDB and Fjall (real on-disk stores in fresh directories under /verif/target/scratch) by the vbackends binary; the three runs are merged into this evidence file".into()];
    let (stats, failure, _) = drive(seed, cases, 1500, &[], |bytes| run_bytes(b, bytes));
    ev.extra.insert(format!("cases_{}", b.name()), serde_json::json!(stats.evaluations));
    ev.stats.merge(stats);
    if let Some(f) = failure {
        let plan = BPlan::decode(&mut Tape::new(&f.bytes));
        let doc = serde_json::json!({"property": prop, "backend": b.name(), "bytes": f.bytes, "message": f.message});
        let path = write_replay(prop, &doc, &format!("{}: {}\n{:#?}", b.name(), f.message, plan.ops));
        report.violations.push((path.display().to_string(), format!("{}: {}", b.name(), f.message)));
        ev.violations += 1;
    }
    ev.write();
    report
}

/// Replays a saved history; returns None if the file is for another backend.
pub fn replay_backend<B: BackendUnderTest>(b: &B, path: &str) -> Option<crate::Report> {
    let doc: serde_json::Value = serde_json::from_str(&std::fs::read_to_string(path).expect("read replay")).expect("json");
    if doc["backend"].as_str() != Some(b.name()) {
        return None;
    }
    let bytes: Vec<u8> = doc["bytes"].as_array().expect("bytes").iter().map(|v| v.as_u64().unwrap() as u8).collect();
    let mut report = crate::Report { property: "C11".into(), ..crate::Report::default() };
    let cr = run_bytes(b, &bytes);
    if let Some(v) = cr.violation {
        report.violations.push((path.to_string(), format!("{}: {v}", b.name())));
    }
    Some(report)
}

pub fn check_mock(tier: crate::Tier) -> crate::Report {
    check_backend(tier, &MockBackend, if tier == crate::Tier::Thorough { 40_000 } else { 4000 })
}
