//! Runtime / panic plumbing shared by all checks.

use std::{
    cell::RefCell,
    future::Future,
    panic::{AssertUnwindSafe, catch_unwind},
    sync::Once,
    time::Duration,
};

thread_local! {
    static LAST_PANIC: RefCell<Vec<String>> = const { RefCell::new(Vec::new()) };
    static QUIET: RefCell<bool> = const { RefCell::new(false) };
}

static HOOK: Once = Once::new();

/// Install a panic hook that records every panic message of the current
/// thread (and stays silent for harness threads that asked for quiet).
pub fn install_panic_hook() {
    HOOK.call_once(|| {
        let default = std::panic::take_hook();
        std::panic::set_hook(Box::new(move |info| {
            let msg = if let Some(s) = info.payload().downcast_ref::<&str>() {
                (*s).to_string()
            } else if let Some(s) = info.payload().downcast_ref::<String>() {
                s.clone()
            } else if info
                .payload()
                .downcast_ref::<crate::queries::InjectedPanic>()
                .is_some()
            {
                "<InjectedPanic>".to_string()
            } else {
                "<non-string panic payload>".to_string()
            };
            let loc = info
                .location()
                .map(|l| format!("{}:{}", l.file(), l.line()))
                .unwrap_or_default();
            record_panic(format!("{msg} @ {loc}"));
            let quiet = QUIET.with(|q| *q.borrow());
            let is_main = std::thread::current().name() == Some("main")
                && !msg.starts_with('<');
            if is_main
                || (!quiet && std::env::var_os("VERIF_VERBOSE_PANICS").is_some())
            {
                default(info);
            }
        }));
    });
}

static GLOBAL_PANICS: parking_lot::Mutex<Vec<(std::thread::ThreadId, String)>> =
    parking_lot::Mutex::new(Vec::new());

fn record_panic(s: String) {
    LAST_PANIC.with(|p| p.borrow_mut().push(s.clone()));
    let mut g = GLOBAL_PANICS.lock();
    if g.len() < 10_000 {
        g.push((std::thread::current().id(), s));
    }
}

/// Panics recorded on this thread since the last call.
pub fn take_panics() -> Vec<String> {
    LAST_PANIC.with(|p| std::mem::take(&mut *p.borrow_mut()))
}

/// Panics recorded on any thread since the last call (use only in checks that
/// run one case at a time).
pub fn take_global_panics() -> Vec<String> {
    std::mem::take(&mut *GLOBAL_PANICS.lock()).into_iter().map(|x| x.1).collect()
}

pub fn set_quiet(q: bool) { QUIET.with(|x| *x.borrow_mut() = q); }

#[derive(Debug)]
pub enum RunError {
    /// no task runnable and the case unfinished (logical deadlock)
    Deadlock,
    Panic(String),
}

/// Run a case future on a fresh current-thread runtime with paused time.
/// Tokio auto-advances a paused clock only when the runtime is idle, so the
/// one-hour timeout fires exactly when nothing is runnable: a deadlock oracle
/// without a wall clock.
pub fn run_paused<T>(fut: impl Future<Output = T>) -> Result<T, RunError> {
    // 61 is tokio's default for the current-thread scheduler
    run_paused_ev(61, fut)
}

/// As [`run_paused`], with the number of spawned-task polls the scheduler
/// performs before it looks at the `block_on` future (the case) again. With
/// the default of 61 a task the engine spawns (the commit of a dropped input
/// session) runs through all its yield points before a woken reader of the
/// case is polled; with 1 the case is polled in between.
pub fn run_paused_ev<T>(event_interval: u32, fut: impl Future<Output = T>) -> Result<T, RunError> {
    install_panic_hook();
    let _ = take_panics();
    let r = catch_unwind(AssertUnwindSafe(|| {
        let rt = tokio::runtime::Builder::new_current_thread()
            .enable_time()
            .start_paused(true)
            .event_interval(event_interval)
            .build()
            .unwrap();
        let out = rt.block_on(async {
            use futures::FutureExt as _;
            // catch panics inside the runtime so that the case future (and
            // the engine it owns) is dropped in runtime context
            tokio::time::timeout(
                Duration::from_secs(3600),
                AssertUnwindSafe(fut).catch_unwind(),
            )
            .await
        });
        // let engine-spawned tasks finish / be dropped
        rt.shutdown_timeout(Duration::from_millis(20));
        out
    }));
    match r {
        Ok(Ok(Ok(v))) => Ok(v),
        Ok(Ok(Err(_))) => {
            let p = take_panics();
            Err(RunError::Panic(p.join(" | ")))
        }
        Ok(Err(_)) => Err(RunError::Deadlock),
        Err(_) => {
            let p = take_panics();
            Err(RunError::Panic(p.join(" | ")))
        }
    }
}
