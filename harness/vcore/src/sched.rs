//! E2: owning the schedule on one thread.
//!
//! Harness-level tasks are plain futures polled by [`Chooser`], a hand-rolled
//! select loop: at every step it polls the ready child picked by the next byte
//! of the schedule tape (tape exhausted => lowest index). Engine internals are
//! made interleavable by the `verif_hooks` yield/preempt points: the installed
//! controller consults the same tape and lets a point return `Pending` once.
//! Code between two hooks/awaits runs atomically, so every schedule produced is
//! a real schedule of a multi-threaded run (a subset of them).

use std::{
    cell::{Cell, RefCell},
    collections::BTreeMap,
    future::Future,
    pin::Pin,
    rc::Rc,
    sync::{
        Arc, Mutex,
        atomic::{AtomicBool, Ordering},
    },
    task::{Context, Poll, Waker},
};

use futures::task::{ArcWake, waker};

#[derive(Debug)]
pub struct SchedTape {
    bytes: Vec<u8>,
    pos: Cell<usize>,
}

impl SchedTape {
    #[must_use]
    pub fn new(bytes: Vec<u8>) -> Rc<Self> {
        Rc::new(Self { bytes, pos: Cell::new(0) })
    }
    pub fn next(&self) -> Option<u8> {
        let p = self.pos.get();
        if p < self.bytes.len() {
            self.pos.set(p + 1);
            Some(self.bytes[p])
        } else {
            None
        }
    }
    #[must_use]
    pub fn consumed(&self) -> usize { self.pos.get() }
}

#[derive(Debug, Clone, Copy, PartialEq, Eq)]
pub enum HookMode {
    /// no hook ever yields
    Off,
    /// yield/preempt points yield according to the tape
    Interleave,
    /// every yield point yields once, preempt points never (so that "drop after
    /// k Pending returns" enumerates the suspension points of the engine)
    CancelPoints,
}

#[derive(Debug, Default)]
pub struct HookStats {
    pub reached: RefCell<BTreeMap<&'static str, u64>>,
    pub yielded: Cell<u64>,
    pub total: Cell<u64>,
    /// fired once when the livelock budget is exceeded; the case's main future
    /// selects on the receiving end and abandons the run
    pub abort: RefCell<Option<tokio::sync::oneshot::Sender<()>>>,
    pub livelocked: Cell<bool>,
}

/// Marker of the deterministic livelock budget: a case whose engine passes
/// more hook points than this is reported as "never completes" (a count, not
/// a wall clock; ordinary cases pass a few thousand to a few hundred thousand
/// points).
pub const LIVELOCK_MARKER: &str = "VERIF_LIVELOCK_BUDGET_EXCEEDED";
pub const LIVELOCK_BUDGET: u64 = 300_000;

/// Install the hook controller for the calling thread. Returns a guard that
/// removes it again.
#[cfg(feature = "hooks")]
pub fn install_controller(
    tape: Rc<SchedTape>,
    mode: Rc<Cell<HookMode>>,
    stats: Rc<HookStats>,
) -> ControllerGuard {
    use qbice::engine::verif::{PointKind, set_controller};
    let budget = std::env::var("VERIF_LIVELOCK_BUDGET")
        .ok()
        .and_then(|s| s.parse().ok())
        .unwrap_or(LIVELOCK_BUDGET);
    let trace = std::env::var_os("VERIF_TRACE_HOOKS").is_some();
    set_controller(Some(Rc::new(move |tag: &'static str, kind: PointKind| {
        if trace {
            eprintln!("      hook {tag} {kind:?} mode={:?}", mode.get());
        }
        *stats.reached.borrow_mut().entry(tag).or_insert(0) += 1;
        let total = stats.total.get() + 1;
        stats.total.set(total);
        if total > budget {
            // do not panic here: the request may sit under thousands of nested
            // engine tasks; signal the case's main future instead
            stats.livelocked.set(true);
            if let Some(tx) = stats.abort.borrow_mut().take() {
                let _ = tx.send(());
            }
            return true;
        }
        let y = match mode.get() {
            HookMode::Off => false,
            HookMode::Interleave => match tape.next() {
                None => false,
                Some(b) => match kind {
                    PointKind::Yield => b < 90,
                    PointKind::Preempt => b < 110,
                },
            },
            HookMode::CancelPoints => kind == PointKind::Yield,
        };
        if y {
            stats.yielded.set(stats.yielded.get() + 1);
        }
        y
    })));
    ControllerGuard
}

#[cfg(not(feature = "hooks"))]
pub fn install_controller(
    _tape: Rc<SchedTape>,
    _mode: Rc<Cell<HookMode>>,
    _stats: Rc<HookStats>,
) -> ControllerGuard {
    ControllerGuard
}

pub struct ControllerGuard;

impl Drop for ControllerGuard {
    fn drop(&mut self) {
        #[cfg(feature = "hooks")]
        qbice::engine::verif::set_controller(None);
    }
}

struct Flag {
    ready: AtomicBool,
    parent: Mutex<Option<Waker>>,
}

impl ArcWake for Flag {
    fn wake_by_ref(arc_self: &Arc<Self>) {
        arc_self.ready.store(true, Ordering::SeqCst);
        if let Some(w) = arc_self.parent.lock().unwrap().as_ref() {
            w.wake_by_ref();
        }
    }
}

type Child<'a, T> = Pin<Box<dyn Future<Output = T> + 'a>>;

/// Select loop over child futures driven by the schedule tape.
pub struct Chooser<'a, T> {
    children: Vec<Option<Child<'a, T>>>,
    results: Vec<Option<T>>,
    flags: Vec<Arc<Flag>>,
    tape: Rc<SchedTape>,
    /// number of child polls performed
    pub polls: u64,
    /// number of polls at which more than one child was ready
    pub contended: u64,
}

impl<'a, T> Chooser<'a, T> {
    pub fn new(children: Vec<Child<'a, T>>, tape: Rc<SchedTape>) -> Self {
        let n = children.len();
        Self {
            children: children.into_iter().map(Some).collect(),
            results: (0..n).map(|_| None).collect(),
            flags: (0..n)
                .map(|_| {
                    Arc::new(Flag {
                        ready: AtomicBool::new(true),
                        parent: Mutex::new(None),
                    })
                })
                .collect(),
            tape,
            polls: 0,
            contended: 0,
        }
    }
}

impl<T: Unpin> Future for Chooser<'_, T> {
    type Output = (Vec<T>, u64, u64);

    fn poll(mut self: Pin<&mut Self>, cx: &mut Context<'_>) -> Poll<Self::Output> {
        let this = &mut *self;
        for f in &this.flags {
            *f.parent.lock().unwrap() = Some(cx.waker().clone());
        }
        loop {
            if this.children.iter().all(Option::is_none) {
                let out = this.results.iter_mut().map(|r| r.take().unwrap()).collect();
                return Poll::Ready((out, this.polls, this.contended));
            }
            let ready: Vec<usize> = (0..this.children.len())
                .filter(|i| {
                    this.children[*i].is_some()
                        && this.flags[*i].ready.load(Ordering::SeqCst)
                })
                .collect();
            if ready.is_empty() {
                return Poll::Pending;
            }
            if ready.len() > 1 {
                this.contended += 1;
            }
            let pick = match this.tape.next() {
                None => ready[0],
                Some(b) => ready[(usize::from(b) * ready.len()) >> 8],
            };
            this.flags[pick].ready.store(false, Ordering::SeqCst);
            let w = waker(this.flags[pick].clone());
            let mut ccx = Context::from_waker(&w);
            this.polls += 1;
            let fut = this.children[pick].as_mut().unwrap();
            if let Poll::Ready(v) = fut.as_mut().poll(&mut ccx) {
                this.results[pick] = Some(v);
                this.children[pick] = None;
            }
            // now and then let the runtime run engine-spawned tasks although
            // some child is still runnable
            if let Some(b) = this.tape.next() {
                if b < 48 {
                    cx.waker().wake_by_ref();
                    return Poll::Pending;
                }
            }
        }
    }
}

/// Drop the inner future after exactly `k` `Pending` returns (k = None: never).
pub struct CancelAfter<'a, T> {
    inner: Option<Child<'a, T>>,
    k: Option<u64>,
    pub pendings: Rc<Cell<u64>>,
}

impl<'a, T> CancelAfter<'a, T> {
    pub fn new(inner: Child<'a, T>, k: Option<u64>, pendings: Rc<Cell<u64>>) -> Self {
        Self { inner: Some(inner), k, pendings }
    }
}

impl<T> Future for CancelAfter<'_, T> {
    /// `None` = cancelled
    type Output = Option<T>;

    fn poll(mut self: Pin<&mut Self>, cx: &mut Context<'_>) -> Poll<Option<T>> {
        let this = &mut *self;
        let Some(fut) = this.inner.as_mut() else {
            return Poll::Ready(None);
        };
        match fut.as_mut().poll(cx) {
            Poll::Ready(v) => {
                this.inner = None;
                Poll::Ready(Some(v))
            }
            Poll::Pending => {
                let n = this.pendings.get() + 1;
                this.pendings.set(n);
                if this.k.is_some_and(|k| n > k) {
                    // drop the future right here: a cancellation at this
                    // suspension point
                    this.inner = None;
                    Poll::Ready(None)
                } else {
                    Poll::Pending
                }
            }
        }
    }
}
