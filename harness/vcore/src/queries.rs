//! The generic query types (one Rust type per execution style, all sharing the
//! payload `id`), the harness executors that interpret a [`Program`], and the
//! executor log judged by the oracles.

use std::{
    collections::BTreeMap,
    future::Future,
    pin::Pin,
    sync::{
        Arc,
        atomic::{AtomicBool, AtomicU64, AtomicUsize, Ordering},
    },
};

use parking_lot::Mutex;
use qbice::{
    Config, Decode, Encode, Engine, ExecutionStyle, Executor, Identifiable,
    Query, StableHash, TrackedEngine,
};

use crate::prog::{Expr, Kind, Program, Val, dyn_index, slot_of, truthy};

macro_rules! qtype {
    ($name:ident) => {
        #[derive(
            Debug,
            Clone,
            Copy,
            PartialEq,
            Eq,
            PartialOrd,
            Ord,
            Hash,
            StableHash,
            Encode,
            Decode,
            Identifiable,
        )]
        pub struct $name(pub u32);
        impl Query for $name {
            type Value = Val;
        }
    };
}

qtype!(In);
qtype!(Xt);
qtype!(Nq);
qtype!(Fw);
qtype!(Pj);
qtype!(Cy);
qtype!(CyF);

/// Marker payload of harness-injected executor panics.
#[derive(Debug, Clone, Copy)]
pub struct InjectedPanic(pub u32);

#[derive(Debug, Clone, Copy, PartialEq, Eq)]
pub enum InvStatus {
    Running,
    Completed,
    /// Dropped (cancelled / aborted by the engine) before completion.
    Dropped,
    /// Unwound by a panic (the engine's cycle signal or an injected panic).
    Unwound,
}

#[derive(Debug)]
pub struct Invocation {
    pub id: usize,
    pub node: u32,
    /// harness epoch (number of sessions committed) when it started
    pub epoch: u64,
    /// step index of the history during which it started
    pub step: u64,
    pub status: InvStatus,
    /// reads attempted (logged before awaiting the engine)
    pub attempted: Vec<u32>,
    /// reads completed: (callee, value handed out by the engine)
    pub reads: Vec<(u32, Val)>,
    pub result: Option<Val>,
}

/// State shared by all executors of one engine instance (and by the
/// interpreter that judges them).
#[derive(Debug)]
pub struct Shared {
    pub prog: Arc<Program>,
    pub log: Mutex<Vec<Invocation>>,
    /// external world read by `Xt` executors
    pub world: Mutex<BTreeMap<u32, Val>>,
    /// nodes whose executor panics (with `InjectedPanic`) when invoked
    pub panic_nodes: Mutex<BTreeMap<u32, u32>>,
    pub epoch: AtomicU64,
    pub step: AtomicU64,
    /// per-node number of executors currently inside (overlap detector)
    pub inside: Vec<AtomicUsize>,
    pub overlap_seen: AtomicBool,
    pub overlap_node: AtomicU64,
    /// set when a second requester observed a node while its executor ran
    pub executions: AtomicUsize,
    /// extra cooperative yields inside executors (lets the scheduler interleave)
    pub yield_in_exec: AtomicBool,
}

impl Shared {
    #[must_use]
    pub fn new(prog: Arc<Program>) -> Arc<Self> {
        let n = prog.nodes.len();
        let world = prog
            .nodes
            .iter()
            .enumerate()
            .filter(|(_, x)| x.kind == Kind::Xt)
            .map(|(i, x)| (i as u32, Val::from(x.default.clone())))
            .collect();
        Arc::new(Self {
            prog,
            log: Mutex::new(Vec::new()),
            world: Mutex::new(world),
            panic_nodes: Mutex::new(BTreeMap::new()),
            epoch: AtomicU64::new(0),
            step: AtomicU64::new(0),
            inside: (0..n).map(|_| AtomicUsize::new(0)).collect(),
            overlap_seen: AtomicBool::new(false),
            overlap_node: AtomicU64::new(0),
            executions: AtomicUsize::new(0),
            yield_in_exec: AtomicBool::new(false),
        })
    }

    fn begin(self: &Arc<Self>, node: u32) -> InvGuard {
        self.executions.fetch_add(1, Ordering::SeqCst);
        let prev = self.inside[node as usize].fetch_add(1, Ordering::SeqCst);
        if prev != 0 {
            self.overlap_seen.store(true, Ordering::SeqCst);
            self.overlap_node.store(u64::from(node), Ordering::SeqCst);
        }
        let mut log = self.log.lock();
        let id = log.len();
        log.push(Invocation {
            id,
            node,
            epoch: self.epoch.load(Ordering::SeqCst),
            step: self.step.load(Ordering::SeqCst),
            status: InvStatus::Running,
            attempted: Vec::new(),
            reads: Vec::new(),
            result: None,
        });
        InvGuard { sh: self.clone(), id, node, done: false }
    }
}

pub struct InvGuard {
    sh: Arc<Shared>,
    id: usize,
    node: u32,
    done: bool,
}

impl InvGuard {
    fn complete(&mut self, v: &Val) {
        self.done = true;
        let mut log = self.sh.log.lock();
        log[self.id].status = InvStatus::Completed;
        log[self.id].result = Some(v.clone());
    }
}

impl Drop for InvGuard {
    fn drop(&mut self) {
        self.sh.inside[self.node as usize].fetch_sub(1, Ordering::SeqCst);
        if !self.done {
            let st = if std::thread::panicking() {
                InvStatus::Unwound
            } else {
                InvStatus::Dropped
            };
            self.sh.log.lock()[self.id].status = st;
        }
    }
}

/// Cheap handle used by reads (also from spawned helpers) to append to the
/// invocation record.
#[derive(Clone)]
struct InvRef {
    sh: Arc<Shared>,
    id: usize,
}

/// Polls the read; after `left` further `Pending`s the read is dropped where
/// it is suspended (what a timeout or `select!` inside an executor does).
struct AbandonAfter<'a> {
    inner: Option<std::pin::Pin<Box<dyn Future<Output = Val> + Send + 'a>>>,
    left: u8,
}

impl Future for AbandonAfter<'_> {
    type Output = Option<Val>;
    fn poll(
        mut self: std::pin::Pin<&mut Self>,
        cx: &mut std::task::Context<'_>,
    ) -> std::task::Poll<Option<Val>> {
        let this = &mut *self;
        let Some(f) = this.inner.as_mut() else {
            return std::task::Poll::Ready(None);
        };
        match f.as_mut().poll(cx) {
            std::task::Poll::Ready(v) => {
                this.inner = None;
                std::task::Poll::Ready(Some(v))
            }
            std::task::Poll::Pending if this.left == 0 => {
                this.inner = None;
                std::task::Poll::Ready(None)
            }
            std::task::Poll::Pending => {
                this.left -= 1;
                std::task::Poll::Pending
            }
        }
    }
}

impl InvRef {
    fn node(&self) -> u32 { self.sh.log.lock()[self.id].node }
    fn attempt(&self, callee: u32) {
        self.sh.log.lock()[self.id].attempted.push(callee);
    }
    fn record(&self, callee: u32, v: &Val) {
        self.sh.log.lock()[self.id].reads.push((callee, v.clone()));
    }
}

type BoxFut<'a, T> = Pin<Box<dyn Future<Output = T> + Send + 'a>>;

async fn query_node<C: Config>(
    sh: &Shared,
    te: &TrackedEngine<C>,
    callee: u32,
) -> Val {
    match sh.prog.nodes[callee as usize].kind {
        Kind::In => te.query(&In(callee)).await,
        Kind::Xt => te.query(&Xt(callee)).await,
        Kind::Nq => te.query(&Nq(callee)).await,
        Kind::Fw => te.query(&Fw(callee)).await,
        Kind::Pj => te.query(&Pj(callee)).await,
        Kind::Cy => te.query(&Cy(callee)).await,
        Kind::CyF => te.query(&CyF(callee)).await,
    }
}

/// Query a node from user level.
pub async fn user_query<C: Config>(
    prog: &Program,
    te: &TrackedEngine<C>,
    node: u32,
) -> Val {
    match prog.nodes[node as usize].kind {
        Kind::In => te.query(&In(node)).await,
        Kind::Xt => te.query(&Xt(node)).await,
        Kind::Nq => te.query(&Nq(node)).await,
        Kind::Fw => te.query(&Fw(node)).await,
        Kind::Pj => te.query(&Pj(node)).await,
        Kind::Cy => te.query(&Cy(node)).await,
        Kind::CyF => te.query(&CyF(node)).await,
    }
}

/// `repair_transitive_firewall_callees` from user level.
pub async fn user_repair_tfc<C: Config>(
    prog: &Program,
    te: &TrackedEngine<C>,
    node: u32,
) {
    match prog.nodes[node as usize].kind {
        Kind::In => te.repair_transitive_firewall_callees(&In(node)).await,
        Kind::Xt => te.repair_transitive_firewall_callees(&Xt(node)).await,
        Kind::Nq => te.repair_transitive_firewall_callees(&Nq(node)).await,
        Kind::Fw => te.repair_transitive_firewall_callees(&Fw(node)).await,
        Kind::Pj => te.repair_transitive_firewall_callees(&Pj(node)).await,
        Kind::Cy => te.repair_transitive_firewall_callees(&Cy(node)).await,
        Kind::CyF => te.repair_transitive_firewall_callees(&CyF(node)).await,
    }
}

async fn read<C: Config>(
    inv: &InvRef,
    te: &TrackedEngine<C>,
    callee: u32,
    slot: u8,
) -> i64 {
    inv.attempt(callee);
    let v = query_node(&inv.sh, te, callee).await;
    inv.record(callee, &v);
    slot_of(&v, slot)
}

fn eval_expr<'a, C: Config>(
    inv: &'a InvRef,
    te: &'a TrackedEngine<C>,
    e: &'a Expr,
) -> BoxFut<'a, i64> {
    Box::pin(async move {
        match e {
            Expr::Const(c) => *c,
            Expr::Read(n, s) => read(inv, te, *n, *s).await,
            Expr::Add(a, b) => {
                let x = eval_expr(inv, te, a).await;
                let y = eval_expr(inv, te, b).await;
                x.wrapping_add(y)
            }
            Expr::Mul(a, b) => {
                let x = eval_expr(inv, te, a).await;
                let y = eval_expr(inv, te, b).await;
                x.wrapping_mul(y)
            }
            Expr::Min(a, b) => {
                let x = eval_expr(inv, te, a).await;
                let y = eval_expr(inv, te, b).await;
                x.min(y)
            }
            Expr::Mod(a, m) => eval_expr(inv, te, a).await.rem_euclid(*m),
            Expr::If(c, a, b) => {
                if truthy(eval_expr(inv, te, c).await) {
                    eval_expr(inv, te, a).await
                } else {
                    eval_expr(inv, te, b).await
                }
            }
            Expr::Dyn(sel, ts) => {
                let i = dyn_index(eval_expr(inv, te, sel).await, ts.len());
                read(inv, te, ts[i].0, ts[i].1).await
            }
            Expr::Par(cs) => {
                let futs = cs.iter().map(|c| eval_expr(inv, te, c));
                futures::future::join_all(futs)
                    .await
                    .into_iter()
                    .fold(0i64, i64::wrapping_add)
            }
            Expr::Unord(ts) => {
                // SAFETY (API contract): the member list is fixed, there is no
                // causal dependency between members, and no other read of this
                // executor is in flight while the group is open.
                unsafe { te.start_unordered_callee_group() };
                let futs = ts.iter().map(|(n, s)| read(inv, te, *n, *s));
                let r = futures::future::join_all(futs)
                    .await
                    .into_iter()
                    .fold(0i64, i64::wrapping_add);
                unsafe { te.end_unordered_callee_group() };
                r
            }
            Expr::Spawned(ts) => {
                let mut handles = Vec::new();
                for (n, s) in ts.iter().copied() {
                    let te2 = te.clone();
                    let inv2 = inv.clone();
                    handles.push(tokio::spawn(async move {
                        read(&inv2, &te2, n, s).await
                    }));
                }
                let mut acc = 0i64;
                for h in handles {
                    match h.await {
                        Ok(v) => acc = acc.wrapping_add(v),
                        Err(e) => {
                            if e.is_panic() {
                                std::panic::resume_unwind(e.into_panic());
                            }
                            // cancelled: the runtime is shutting down
                            std::future::pending::<()>().await;
                        }
                    }
                }
                acc
            }
            Expr::Trap(n, s) => {
                let v = read(inv, te, *n, *s).await;
                assert!(
                    truthy(v),
                    "partial executor of node {} ran although its guard {}.{} is false (a from-scratch evaluation never asks for it)",
                    inv.node(),
                    n,
                    s
                );
                v
            }
            Expr::Abandon(n, s, k) => {
                inv.attempt(*n);
                let fut = AbandonAfter {
                    inner: Some(Box::pin(query_node(&inv.sh, te, *n))),
                    left: *k,
                };
                if let Some(v) = fut.await {
                    inv.record(*n, &v);
                    let _ = slot_of(&v, *s);
                }
                0
            }
            Expr::Detached(n, s) => {
                let te2 = te.clone();
                let inv2 = inv.clone();
                let (n, s) = (*n, *s);
                drop(tokio::spawn(async move {
                    let _ = read(&inv2, &te2, n, s).await;
                }));
                0
            }
        }
    })
}

async fn run_node<C: Config>(
    sh: &Arc<Shared>,
    node: u32,
    te: &TrackedEngine<C>,
) -> Val {
    let mut guard = sh.begin(node);
    if sh.yield_in_exec.load(Ordering::Relaxed) {
        tokio::task::yield_now().await;
    }
    {
        let mut pn = sh.panic_nodes.lock();
        if let Some(cnt) = pn.get_mut(&node) {
            if *cnt > 0 {
                *cnt -= 1;
                drop(pn);
                std::panic::panic_any(InjectedPanic(node));
            }
        }
    }
    let n = &sh.prog.nodes[node as usize];
    let v: Val = if n.kind == Kind::Xt {
        sh.world.lock().get(&node).cloned().unwrap_or_else(|| Val::from(vec![0]))
    } else {
        let inv = InvRef { sh: sh.clone(), id: guard.id };
        let mut out = Vec::with_capacity(n.slots.len());
        for e in &n.slots {
            out.push(eval_expr(&inv, te, e).await);
        }
        out.into()
    };
    if sh.yield_in_exec.load(Ordering::Relaxed) {
        tokio::task::yield_now().await;
    }
    guard.complete(&v);
    v
}

macro_rules! exec {
    ($ex:ident, $q:ident, $style:expr, $scc:expr) => {
        #[derive(Debug)]
        pub struct $ex(pub Arc<Shared>);
        impl<C: Config> Executor<$q, C> for $ex {
            async fn execute(&self, q: &$q, te: &TrackedEngine<C>) -> Val {
                run_node(&self.0, q.0, te).await
            }
            fn execution_style() -> ExecutionStyle { $style }
            fn scc_value() -> Val { $scc }
        }
    };
}

/// Declared cycle default of Cy / CyF nodes (a constant per type: `scc_value`
/// is an associated function without access to the key).
pub const CY_DEFAULT: i64 = -7;
pub const CYF_DEFAULT: i64 = -11;

exec!(ExXt, Xt, ExecutionStyle::ExternalInput, panic!("no scc for Xt"));
exec!(ExNq, Nq, ExecutionStyle::Normal, panic!("no scc for Nq"));
exec!(ExFw, Fw, ExecutionStyle::Firewall, panic!("no scc for Fw"));
exec!(ExPj, Pj, ExecutionStyle::Projection, panic!("no scc for Pj"));
exec!(ExCy, Cy, ExecutionStyle::Normal, Val::from(vec![CY_DEFAULT]));
exec!(ExCyF, CyF, ExecutionStyle::Firewall, Val::from(vec![CYF_DEFAULT]));

/// Logging executor for `In`: only reachable when an input was never set (e.g.
/// a crash image taken before the input's first session). Returns a sentinel.
#[derive(Debug)]
pub struct ExIn(pub Arc<Shared>);
pub const IN_SENTINEL: i64 = i64::MIN + 17;
impl<C: Config> Executor<In, C> for ExIn {
    async fn execute(&self, q: &In, _te: &TrackedEngine<C>) -> Val {
        let mut g = self.0.begin(q.0);
        let v = Val::from(vec![IN_SENTINEL]);
        g.complete(&v);
        v
    }
}

pub fn register_all<C: Config>(engine: &mut Engine<C>, sh: &Arc<Shared>) {
    engine.register_executor::<In, _>(Arc::new(ExIn(sh.clone())));
    engine.register_executor::<Xt, _>(Arc::new(ExXt(sh.clone())));
    engine.register_executor::<Nq, _>(Arc::new(ExNq(sh.clone())));
    engine.register_executor::<Fw, _>(Arc::new(ExFw(sh.clone())));
    engine.register_executor::<Pj, _>(Arc::new(ExPj(sh.clone())));
    engine.register_executor::<Cy, _>(Arc::new(ExCy(sh.clone())));
    engine.register_executor::<CyF, _>(Arc::new(ExCyF(sh.clone())));
}
