#![no_main]
//! C11: backend contract histories on MockKv (coverage-guided).
use libfuzzer_sys::fuzz_target;
use vcore::ck_backend::{MockBackend, run_bytes};

fuzz_target!(|data: &[u8]| {
    if let Some(v) = run_bytes(&MockBackend, data).violation {
        panic!("C11 violation: {v}");
    }
});
