#![no_main]
//! C16: TinyLFU op streams (coverage-guided), same decoder and oracle as the
//! proptest search; piggy-back maintenance only (deterministic).
use libfuzzer_sys::fuzz_target;
use vcore::{Tier, ck_lfu::{LPlan, run_plan}, tape::Tape};

fuzz_target!(|data: &[u8]| {
    let mut plan = LPlan::decode(&mut Tape::new(data), Tier::Quick);
    plan.mode = vcore::ck_lfu::PIGGYBACK;
    if let Some(v) = run_plan(&plan).violation {
        panic!("C16 violation: {v}");
    }
});
