#![no_main]
//! C12: values of a few nested shapes are BUILT from the fuzzer's bytes (the
//! property is about bytes produced by the encoder, not about malformed
//! input), encoded, decoded, and compared; two values written back to back
//! must be read back in sequence with exact consumption.
use std::collections::{BTreeMap, BTreeSet, VecDeque};

use libfuzzer_sys::fuzz_target;
use qbice_serialize::{Decode, Decoder as _, Encode, Encoder as _, Plugin, PostcardDecoder, PostcardEncoder};
use vcore::tape::Tape;

trait Mk: Sized {
    fn mk(t: &mut Tape<'_>, d: u32) -> Self;
}
macro_rules! mk_int {
    ($($t:ty),*) => {$(
        impl Mk for $t {
            fn mk(t: &mut Tape<'_>, _d: u32) -> Self {
                let mut b = [0u8; 16];
                let n = 1 + t.idx(16);
                for x in b.iter_mut().take(n) { *x = t.byte(); }
                let v = u128::from_le_bytes(b);
                // all-ones above the chosen width now and then (negative / max values)
                let v = if t.chance(64) { v | (u128::MAX << (8 * n as u32 % 128)) } else { v };
                v as $t
            }
        }
    )*};
}
mk_int!(u8, u16, u32, u64, u128, usize, i8, i16, i32, i64, i128, isize);
impl Mk for bool { fn mk(t: &mut Tape<'_>, _d: u32) -> Self { t.chance(128) } }
impl Mk for char {
    fn mk(t: &mut Tape<'_>, _d: u32) -> Self {
        char::from_u32(u32::mk(t, 0) % 0x11_0000).unwrap_or('\u{fffd}')
    }
}
impl Mk for String {
    fn mk(t: &mut Tape<'_>, d: u32) -> Self { (0..t.idx(12)).map(|_| char::mk(t, d)).collect() }
}
impl<T: Mk> Mk for Vec<T> {
    fn mk(t: &mut Tape<'_>, d: u32) -> Self {
        let big = t.chance(20);
        let n = if d == 0 { 0 } else { t.idx(if big { 140 } else { 5 }) };
        (0..n).map(|_| T::mk(t, d - 1)).collect()
    }
}
impl<T: Mk> Mk for VecDeque<T> {
    fn mk(t: &mut Tape<'_>, d: u32) -> Self {
        let v = Vec::<T>::mk(t, d);
        let mut dq = VecDeque::with_capacity(v.len() + 2);
        for (i, x) in v.into_iter().enumerate() {
            if i % 2 == 0 { dq.push_back(x) } else { dq.push_front(x) }
        }
        dq
    }
}
impl<T: Mk> Mk for Option<T> {
    fn mk(t: &mut Tape<'_>, d: u32) -> Self { if d > 0 && t.chance(170) { Some(T::mk(t, d - 1)) } else { None } }
}
impl<T: Mk> Mk for Box<T> { fn mk(t: &mut Tape<'_>, d: u32) -> Self { Box::new(T::mk(t, d)) } }
impl<A: Mk, B: Mk> Mk for (A, B) { fn mk(t: &mut Tape<'_>, d: u32) -> Self { (A::mk(t, d), B::mk(t, d)) } }
impl<A: Mk, B: Mk, C: Mk> Mk for (A, B, C) {
    fn mk(t: &mut Tape<'_>, d: u32) -> Self { (A::mk(t, d), B::mk(t, d), C::mk(t, d)) }
}
impl<A: Mk, B: Mk> Mk for Result<A, B> {
    fn mk(t: &mut Tape<'_>, d: u32) -> Self { if t.chance(128) { Ok(A::mk(t, d)) } else { Err(B::mk(t, d)) } }
}
impl<K: Mk + Ord, V: Mk> Mk for BTreeMap<K, V> {
    fn mk(t: &mut Tape<'_>, d: u32) -> Self { Vec::<(K, V)>::mk(t, d).into_iter().collect() }
}
impl<K: Mk + Ord> Mk for BTreeSet<K> {
    fn mk(t: &mut Tape<'_>, d: u32) -> Self { Vec::<K>::mk(t, d).into_iter().collect() }
}

fn enc<T: Encode>(v: &T, plugin: &Plugin) -> Vec<u8> {
    let mut b = Vec::new();
    PostcardEncoder::new(&mut b).encode(v, plugin).expect("encode");
    b
}

fn one<T: Mk + Encode + Decode + PartialEq + std::fmt::Debug>(t: &mut Tape<'_>) {
    let plugin = Plugin::default();
    let (a, b) = (T::mk(t, 3), T::mk(t, 3));
    let (ea, eb) = (enc(&a, &plugin), enc(&b, &plugin));
    let mut both = ea.clone();
    both.extend_from_slice(&eb);
    let mut d = PostcardDecoder::new(std::io::Cursor::new(&both[..]));
    let name = std::any::type_name::<T>();
    let a2 = d.decode::<T>(&plugin).unwrap_or_else(|e| panic!("C12 violation: {name}: decoding its own encoding failed: {e}"));
    assert!(d.get_ref().position() == ea.len() as u64, "C12 violation: {name}: decoding consumed {} of {} bytes", d.get_ref().position(), ea.len());
    let b2 = d.decode::<T>(&plugin).unwrap_or_else(|e| panic!("C12 violation: {name}: second value written back to back: {e}"));
    assert!(d.get_ref().position() == both.len() as u64, "C12 violation: {name}: second value consumed wrongly");
    assert!(a == a2 && b == b2, "C12 violation: {name}: {a:?} / {b:?} decoded as {a2:?} / {b2:?}");
}

fuzz_target!(|data: &[u8]| {
    let mut t = Tape::new(data);
    match t.idx(12) {
        0 => one::<Vec<String>>(&mut t),
        1 => one::<BTreeMap<u32, Vec<u8>>>(&mut t),
        2 => one::<Option<Box<(i128, u64, bool)>>>(&mut t),
        3 => one::<VecDeque<(char, i16)>>(&mut t),
        4 => one::<Result<String, Vec<Option<u8>>>>(&mut t),
        5 => one::<(u128, i64, String)>(&mut t),
        6 => one::<Vec<Vec<Vec<u8>>>>(&mut t),
        7 => one::<BTreeSet<String>>(&mut t),
        8 => one::<Vec<(i8, i16, i32)>>(&mut t),
        9 => one::<(usize, isize, Option<Vec<u16>>)>(&mut t),
        10 => one::<BTreeMap<String, Option<BTreeMap<i64, char>>>>(&mut t),
        _ => one::<VecDeque<Option<Box<Vec<i128>>>>>(&mut t),
    }
});
