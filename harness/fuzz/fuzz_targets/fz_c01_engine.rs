#![no_main]
//! C01: program x history cases on the in-memory engine (coverage-guided),
//! same decoder, oracle and known-finding exclusion as the proptest search.
use libfuzzer_sys::fuzz_target;
use vcore::{Tier, ck_engine::{Which, run_bytes}};

fuzz_target!(|data: &[u8]| {
    let (_, cr) = run_bytes("C01", data, Tier::Quick, Which::A);
    if let Some(v) = cr.violation {
        let tolerated = vcore::known::tolerated("C01");
        if cr.signature.as_ref().is_some_and(|s| tolerated.contains(s)) {
            return;
        }
        panic!("C01 violation: {v}");
    }
});
