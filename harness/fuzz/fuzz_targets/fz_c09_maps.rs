#![no_main]
//! C09: cached-map op streams over MockKv (coverage-guided).
use libfuzzer_sys::fuzz_target;
use vcore::{Tier, ck_storage::{C9Plan, run_c09}, tape::Tape};

fuzz_target!(|data: &[u8]| {
    let plan = C9Plan::decode(&mut Tape::new(data), Tier::Quick);
    if let Some(v) = run_c09(&plan).violation {
        panic!("C09 violation: {v}");
    }
});
