//! Optional-feature types: SmallVec and BitVec.

use bitvec::prelude::*;
use smallvec::SmallVec;
use vcore::tape::Tape;

use crate::{Entry, universe::U, *};

impl<A: smallvec::Array> U for SmallVec<A>
where
    A::Item: U,
{
    fn mk(t: &mut Tape<'_>, d: u32) -> Self {
        let n = crate::universe::mk_len(t, d).min(9);
        (0..n).map(|_| A::Item::mk(t, d.saturating_sub(1))).collect()
    }
    fn veq(&self, o: &Self) -> bool {
        self.len() == o.len() && self.iter().zip(o.iter()).all(|(a, b)| a.veq(b))
    }
}

impl<T: BitStore, O: BitOrder> U for BitVec<T, O> {
    fn mk(t: &mut Tape<'_>, _d: u32) -> Self {
        let n = [0usize, 1, 4, 7, 8, 9, 15, 16, 17, 31, 32, 33, 63, 64, 65, 130][t.idx(16)];
        let mut v = BitVec::<T, O>::new();
        let mut cur = 0u8;
        for i in 0..n {
            if i % 8 == 0 {
                cur = t.byte();
            }
            v.push((cur >> (i % 8)) & 1 == 1);
        }
        v
    }
    fn veq(&self, o: &Self) -> bool {
        self.len() == o.len() && self.iter().by_vals().eq(o.iter().by_vals())
    }
}

pub fn register(r: &mut Vec<Entry>) {
    e_all!(r, SmallVec<[u8; 4]>);
    e_all!(r, SmallVec<[String; 2]>);
    e_all!(r, SmallVec<[u64; 1]>);
    e_all!(r, Vec<SmallVec<[u8; 2]>>);
    e_all!(r, Option<SmallVec<[i32; 3]>>);
    e_all!(r, BitVec<u8, Lsb0>);
    e_all!(r, BitVec<u8, Msb0>);
    e_all!(r, BitVec<u16, Lsb0>);
    e_all!(r, BitVec<u32, Lsb0>);
    e_all!(r, BitVec<u32, Msb0>);
    e_all!(r, BitVec<u64, Lsb0>);
    e_all!(r, BitVec<usize, Lsb0>);
    e_all!(r, BitVec<usize, Msb0>);
    e_all!(r, Vec<BitVec<usize, Lsb0>>);
    e_all!(r, (BitVec<u8, Lsb0>, u8));
}
