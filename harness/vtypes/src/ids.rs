//! C14: type and query identities are unique and stable across runs.
//!
//! (a) compile time: every registered type contributes (name, STABLE_TYPE_ID),
//!     plus an id-only list of permuted / re-nested instantiations;
//! (b) run time: a *term mirror* computes the id of a type term with the real
//!     `from_unique_type_name` / `combine` in the shape of the impls; it is
//!     validated differentially against real constants and then used to search
//!     millions of generated term pairs;
//! (c) query ids of the harness query types.

use std::collections::HashMap;

use qbice::query::QueryID;
use qbice_stable_hash::{BuildStableHasher, Compact128, SeededStableHasherBuilder, Sip128Hasher, StableHash, StableHasher};
use qbice_stable_type_id::{Identifiable, StableTypeID};
use vcore::{
    Report, Tier,
    driver::{Evidence, env_seed, write_replay},
    queries::{Cy, CyF, Fw, In, Nq, Pj, Xt},
    tape::Tape,
};

use crate::{Entry, registry};

#[derive(Debug, Clone, PartialEq, Eq, Hash)]
pub enum Term {
    Leaf(&'static str),
    /// constructor base name, arguments in combine order
    Ctor(&'static str, Vec<Term>),
    Array(Box<Term>, u64),
}

const LEAVES: &[&str] = &["u8", "u16", "u32", "u64", "i8", "i64", "bool", "char", "f32", "String", "()"];

fn leaf_id(name: &str) -> StableTypeID {
    match name {
        "u8" => u8::STABLE_TYPE_ID,
        "u16" => u16::STABLE_TYPE_ID,
        "u32" => u32::STABLE_TYPE_ID,
        "u64" => u64::STABLE_TYPE_ID,
        "i8" => i8::STABLE_TYPE_ID,
        "i64" => i64::STABLE_TYPE_ID,
        "bool" => bool::STABLE_TYPE_ID,
        "char" => char::STABLE_TYPE_ID,
        "f32" => f32::STABLE_TYPE_ID,
        "String" => String::STABLE_TYPE_ID,
        "()" => <()>::STABLE_TYPE_ID,
        _ => unreachable!(),
    }
}

/// unary constructors: (mirror name, base name used by the impl)
const UNARY: &[(&str, &str)] = &[
    ("Vec", "std::vec::Vec"),
    ("Option", ""),
    ("Box", "alloc::boxed::Box"),
    ("Arc", "std::sync::Arc"),
    ("Slice", "std::slice::Slice"),
];

impl Term {
    pub fn id(&self, bases: &HashMap<&'static str, StableTypeID>) -> StableTypeID {
        match self {
            Term::Leaf(n) => leaf_id(n),
            Term::Ctor(name, args) => {
                let mut id = bases[name];
                for a in args {
                    id = id.combine(a.id(bases));
                }
                id
            }
            Term::Array(t, n) => {
                let base = bases["array"];
                let size_id = unsafe { StableTypeID::from_raw_parts(*n, 0) };
                base.combine(t.id(bases)).combine(size_id)
            }
        }
    }

    fn mk(t: &mut Tape<'_>, depth: u32) -> Term {
        if depth == 0 || t.chance(70) {
            return Term::Leaf(LEAVES[t.idx(LEAVES.len())]);
        }
        let d = depth - 1;
        match t.idx(9) {
            0 => Term::Ctor("Vec", vec![Term::mk(t, d)]),
            1 => Term::Ctor("Option", vec![Term::mk(t, d)]),
            2 => Term::Ctor("Box", vec![Term::mk(t, d)]),
            3 => Term::Ctor("Arc", vec![Term::mk(t, d)]),
            4 => Term::Ctor("Result", vec![Term::mk(t, d), Term::mk(t, d)]),
            5 => Term::Ctor("BTreeMap", vec![Term::mk(t, d), Term::mk(t, d)]),
            6 => {
                let n = 1 + t.idx(5);
                Term::Ctor("Tuple", (0..n).map(|_| Term::mk(t, d)).collect())
            }
            7 => Term::Array(Box::new(Term::mk(t, d)), [0u64, 1, 2, 3, 8][t.idx(5)]),
            _ => Term::Ctor("Slice", vec![Term::mk(t, d)]),
        }
    }

    /// a structurally close but different term (swap / re-nest / change arity)
    fn neighbours(&self) -> Vec<Term> {
        let mut out = Vec::new();
        match self {
            Term::Ctor(n, args) if args.len() >= 2 => {
                let mut sw = args.clone();
                sw.swap(0, 1);
                out.push(Term::Ctor(n, sw));
                if *n == "Tuple" {
                    // ((a,b),c..) and (a,(b,c..)) and dropping one
                    let mut nested = vec![Term::Ctor("Tuple", args[..2].to_vec())];
                    nested.extend_from_slice(&args[2..]);
                    out.push(Term::Ctor("Tuple", nested));
                    let mut tail = vec![args[0].clone(), Term::Ctor("Tuple", args[1..].to_vec())];
                    tail.truncate(2);
                    out.push(Term::Ctor("Tuple", tail));
                    out.push(Term::Ctor("Tuple", args[1..].to_vec()));
                }
            }
            Term::Array(t, n) => {
                out.push(Term::Array(t.clone(), n + 1));
                if let Term::Array(inner, m) = &**t {
                    out.push(Term::Array(Box::new(Term::Array(inner.clone(), *n)), *m));
                }
            }
            Term::Ctor(n, args) if args.len() == 1 => {
                for (m, _) in UNARY {
                    if m != n {
                        out.push(Term::Ctor(m, args.clone()));
                    }
                }
            }
            _ => {}
        }
        out.retain(|x| x != self);
        out
    }
}

fn bases() -> HashMap<&'static str, StableTypeID> {
    let mut m = HashMap::new();
    let f = StableTypeID::from_unique_type_name;
    m.insert("Vec", f("std::vec::Vec"));
    m.insert("Box", f("alloc::boxed::Box"));
    m.insert("Arc", f("std::sync::Arc"));
    m.insert("Slice", f("std::slice::Slice"));
    m.insert("Tuple", f("std::tuple::Tuple"));
    m.insert("array", f("core::primitive::array"));
    m.insert("BTreeMap", f("alloc::collections::BTreeMap"));
    // Option / Result base names are taken from the real constants by solving
    // nothing: they are validated below; if a name is wrong the validation
    // fails and the mirror is not used for that constructor
    m.insert("Option", f("core::option::Option"));
    m.insert("Result", f("core::result::Result"));
    m
}

/// Differential validation of the mirror against real constants.
fn validate_mirror(b: &HashMap<&'static str, StableTypeID>) -> Vec<(&'static str, bool)> {
    let l = |n| Term::Leaf(n);
    let checks: Vec<(&'static str, Term, StableTypeID)> = vec![
        ("Vec", Term::Ctor("Vec", vec![l("u8")]), <Vec<u8>>::STABLE_TYPE_ID),
        ("Vec", Term::Ctor("Vec", vec![Term::Ctor("Vec", vec![l("String")])]), <Vec<Vec<String>>>::STABLE_TYPE_ID),
        ("Box", Term::Ctor("Box", vec![l("u64")]), <Box<u64>>::STABLE_TYPE_ID),
        ("Arc", Term::Ctor("Arc", vec![l("bool")]), <std::sync::Arc<bool>>::STABLE_TYPE_ID),
        ("Slice", Term::Ctor("Slice", vec![l("i8")]), <[i8]>::STABLE_TYPE_ID),
        ("Option", Term::Ctor("Option", vec![l("char")]), <Option<char>>::STABLE_TYPE_ID),
        ("Result", Term::Ctor("Result", vec![l("u8"), l("String")]), <Result<u8, String>>::STABLE_TYPE_ID),
        ("BTreeMap", Term::Ctor("BTreeMap", vec![l("u8"), l("i64")]), <std::collections::BTreeMap<u8, i64>>::STABLE_TYPE_ID),
        ("Tuple", Term::Ctor("Tuple", vec![l("u8")]), <(u8,)>::STABLE_TYPE_ID),
        ("Tuple", Term::Ctor("Tuple", vec![l("u8"), l("u16"), l("()")]), <(u8, u16, ())>::STABLE_TYPE_ID),
        ("Tuple", Term::Ctor("Tuple", vec![Term::Ctor("Tuple", vec![l("u8"), l("u8")]), l("u8")]), <((u8, u8), u8)>::STABLE_TYPE_ID),
        ("array", Term::Array(Box::new(l("u32")), 3), <[u32; 3]>::STABLE_TYPE_ID),
        ("array", Term::Array(Box::new(Term::Array(Box::new(l("u8")), 2)), 3), <[[u8; 2]; 3]>::STABLE_TYPE_ID),
    ];
    let mut ok: HashMap<&'static str, bool> = HashMap::new();
    for (ctor, term, real) in checks {
        let good = term.id(b) == real;
        let e = ok.entry(ctor).or_insert(true);
        *e = *e && good;
    }
    ok.into_iter().collect()
}

macro_rules! id_only {
    ($v:expr; $($t:ty),* $(,)?) => {$(
        $v.push((std::any::type_name::<$t>().to_string(), <$t as Identifiable>::STABLE_TYPE_ID.as_u128()));
    )*};
}

fn extra_ids() -> Vec<(String, u128)> {
    use std::collections::*;
    let mut v: Vec<(String, u128)> = Vec::new();
    id_only!(v;
        (u8, u16), (u16, u8), (u8, u8, u16), (u8, u16, u8), (u16, u8, u8),
        (u8, (u8, u8)), ((u8, u8), u8), (u8, u8, u8), ((u8,), u8), (u8, (u8,)), ((u8, u8),), (((u8,),),),
        (u8, u16, u32, u64, i8, i16), (i16, i8, u64, u32, u16, u8), (u8, u8, u8, u8, u8), (u8, u8, u8, u8, u8, u8),
        ((u8, u8), (u8, u8)), (u8, (u8, (u8, u8))), (((u8, u8), u8), u8),
        Result<u8, u16>, Result<u16, u8>, Result<(u8, u16), ()>, Result<u8, (u16, ())>,
        Result<Result<u8, u8>, u8>, Result<u8, Result<u8, u8>>,
        [u8; 0], [u8; 1], [u8; 2], [u8; 3], [u16; 2], [[u8; 2]; 3], [[u8; 3]; 2], [[u8; 2]; 2], [[[u8; 1]; 2]; 3], [[[u8; 3]; 2]; 1],
        [(u8, u8); 2], ([u8; 2], [u8; 2]), [Option<u8>; 2], Option<[u8; 2]>,
        HashMap<u8, u16>, HashMap<u16, u8>, BTreeMap<u8, u16>, BTreeMap<u16, u8>,
        HashMap<u8, HashMap<u8, u16>>, HashMap<HashMap<u8, u8>, u16>,
        HashSet<u8>, BTreeSet<u8>, HashSet<(u8, u16)>, HashSet<(u16, u8)>,
        Vec<Option<u8>>, Option<Vec<u8>>, Box<Vec<u8>>, Vec<Box<u8>>, std::sync::Arc<Vec<u8>>, Vec<std::sync::Arc<u8>>,
        std::rc::Rc<u8>, std::sync::Arc<u8>, Box<u8>, &'static u8, &'static mut u8, *const u8, *mut u8,
        std::sync::Weak<u8>, std::rc::Weak<u8>, std::cell::Cell<u8>, std::cell::RefCell<u8>, std::cell::UnsafeCell<u8>,
        std::sync::Mutex<u8>, std::sync::RwLock<u8>, std::cell::OnceCell<u8>, std::sync::OnceLock<u8>,
        std::mem::ManuallyDrop<u8>, std::mem::MaybeUninit<u8>, std::pin::Pin<Box<u8>>, std::ptr::NonNull<u8>,
        std::num::Wrapping<u8>, std::num::Saturating<u8>, std::marker::PhantomData<u8>,
        std::ops::Range<u8>, std::ops::RangeFrom<u8>, std::ops::RangeInclusive<u8>, std::ops::RangeTo<u8>, std::ops::RangeToInclusive<u8>, std::ops::Bound<u8>, std::ops::RangeFull,
        VecDeque<u8>, LinkedList<u8>, BinaryHeap<u8>, Vec<u8>, [u8], str, String, std::borrow::Cow<'static, str>, std::borrow::Cow<'static, [u8]>,
        std::path::Path, std::path::PathBuf, std::ffi::OsStr, std::ffi::OsString, std::ffi::CStr, std::ffi::CString,
        std::time::Duration, std::time::Instant, std::time::SystemTime, std::cmp::Ordering, std::sync::atomic::Ordering,
        std::convert::Infallible, std::hash::RandomState, std::hash::DefaultHasher, std::hash::BuildHasherDefault<std::hash::DefaultHasher>,
        std::any::TypeId, std::marker::PhantomPinned, std::io::Error, std::io::ErrorKind, std::fmt::Error,
        std::alloc::Layout, std::alloc::LayoutError, std::net::IpAddr, std::net::Ipv4Addr, std::net::Ipv6Addr,
        std::net::SocketAddr, std::net::SocketAddrV4, std::net::SocketAddrV6,
        std::sync::atomic::AtomicBool, std::sync::atomic::AtomicU8, std::sync::atomic::AtomicI8, std::sync::atomic::AtomicU64, std::sync::atomic::AtomicUsize, std::sync::atomic::AtomicPtr<u8>,
        std::num::NonZeroU8, std::num::NonZeroI8, std::num::NonZeroU16, std::num::NonZeroU64, std::num::NonZeroUsize, std::num::NonZeroIsize,
        crate::derived::Gen<u8, u16>, crate::derived::Gen<u16, u8>, crate::derived::Gen<(u8, u16), u8>, crate::derived::Gen<u8, (u16, u8)>,
        crate::derived::GenE<u16>, crate::derived::GenE<(u8, u8)>, crate::derived::GenE<crate::derived::Gen<u8, u8>>,
        In, Xt, Nq, Fw, Pj, Cy, CyF, QueryID,
    );
    v
}

fn query_ids() -> Result<u64, String> {
    let mut seen: HashMap<(u128, u128), String> = HashMap::new();
    let mut n = 0u64;
    for seed in [0u64, 1] {
        let b = SeededStableHasherBuilder::<Sip128Hasher>::new(seed);
        let hash = |k: u32| -> Compact128 {
            let mut h = b.build_stable_hasher();
            k.stable_hash(&mut h);
            h.finish().into()
        };
        let mut local: HashMap<(u128, u128), String> = HashMap::new();
        for k in 0..3000u32 {
            macro_rules! q {
                ($t:ident) => {{
                    // the key payload is the same for all query types
                    let mut h = b.build_stable_hasher();
                    $t(k).stable_hash(&mut h);
                    let id = QueryID::new::<$t>(h.finish().into());
                    let id2 = QueryID::new::<$t>({
                        let mut h = b.build_stable_hasher();
                        $t(k).stable_hash(&mut h);
                        h.finish().into()
                    });
                    if id != id2 {
                        return Err(format!("equal query keys got different ids: {}({k})", stringify!($t)));
                    }
                    let key = (id.stable_type_id().as_u128(), id.hash_128());
                    let name = format!("{}({k})", stringify!($t));
                    if let Some(prev) = local.insert(key, name.clone()) {
                        return Err(format!("distinct query keys share one QueryID: {prev} and {name}"));
                    }
                    n += 1;
                }};
            }
            q!(In);
            q!(Xt);
            q!(Nq);
            q!(Fw);
            q!(Pj);
            q!(Cy);
            q!(CyF);
            let _ = hash(k);
        }
        seen.extend(local);
    }
    Ok(n)
}

pub fn check_c14(tier: Tier) -> Report {
    let prop = "C14";
    let seed = env_seed();
    let mut report = Report { property: prop.into(), ..Report::default() };
    let mut ev = Evidence::new(
        prop,
        tier.name(),
        seed,
        "exploration",
        "(a) STABLE_TYPE_ID constants of every monomorphised type of the universe (C12 list + an id-only list of permuted / re-nested / re-ordered instantiations of tuples, arrays, Result, maps, wrappers, derived generics) compared pairwise; (b) term mirror: generated type terms over 11 leaves and 9 constructors whose id is computed with the real from_unique_type_name/combine in the shape of the impls, validated differentially against real constants, then millions of generated terms plus their structural neighbours (argument swap, re-nesting, arity change, array length vs element) are inserted into one id -> term map: two different terms with one id are a violation; combine(a,b) != combine(b,a), != a, != b; (c) QueryIDs of the seven harness query types over 3000 keys and two hasher seeds; (d) ids printed by three independent processes (shared with C13). non-trivial = a term pair that differs only by argument order or nesting; distinct = distinct terms",
    );
    ev.assumptions = vec![
        "an accidental (non-structural) 128-bit collision outside the explored set cannot be excluded".into(),
    ];
    let fail = |report: &mut Report, ev: &mut Evidence, msg: String| {
        let doc = serde_json::json!({"property": prop, "message": msg});
        let path = write_replay(prop, &doc, &msg);
        report.violations.push((path.display().to_string(), msg));
        ev.violations += 1;
    };
    // (a)
    let reg: Vec<Entry> = registry();
    let mut all: Vec<(String, u128)> =
        reg.iter().filter_map(|e| e.id.map(|i| (e.canon.to_string(), i))).collect();
    all.extend(extra_ids());
    let mut by_id: HashMap<u128, String> = HashMap::new();
    let mut by_name: HashMap<String, u128> = HashMap::new();
    for (name, id) in &all {
        if let Some(prev) = by_name.insert(name.clone(), *id) {
            if prev != *id {
                fail(&mut report, &mut ev, format!("type {name} has two different ids"));
            }
            continue;
        }
        if let Some(prev) = by_id.insert(*id, name.clone()) {
            if prev != *name {
                fail(&mut report, &mut ev, format!("distinct types share one StableTypeID: {prev} and {name} ({id:032x})"));
            }
        }
    }
    let constants = by_name.len() as u64;
    // (b)
    let b = bases();
    let valid = validate_mirror(&b);
    let usable: Vec<&'static str> = valid.iter().filter(|(_, ok)| *ok).map(|(n, _)| *n).collect();
    ev.extra.insert("mirror_constructors_validated".into(), serde_json::json!(usable));
    ev.extra.insert(
        "mirror_constructors_rejected".into(),
        serde_json::json!(valid.iter().filter(|(_, ok)| !*ok).map(|(n, _)| *n).collect::<Vec<_>>()),
    );
    fn uses_only(t: &Term, usable: &[&'static str]) -> bool {
        match t {
            Term::Leaf(_) => true,
            Term::Ctor(n, a) => usable.contains(n) && a.iter().all(|x| uses_only(x, usable)),
            Term::Array(t, _) => usable.contains(&"array") && uses_only(t, usable),
        }
    }
    let target: u64 = if tier == Tier::Thorough { 60_000_000 } else { 6_000_000 };
    let mut ids: HashMap<u128, Term> = HashMap::new();
    let mut terms = 0u64;
    let mut nontrivial = 0u64;
    let mut sample = Vec::new();
    // deterministic byte source: proptest's generator
    use proptest::{collection::vec, prelude::any, strategy::{Strategy, ValueTree}, test_runner::{Config, RngSeed, TestRunner}};
    let mut runner = TestRunner::new(Config { rng_seed: RngSeed::Fixed(seed ^ 0xC14), failure_persistence: None, ..Config::default() });
    let strat = vec(any::<u8>(), 8..64);
    'outer: while terms < target {
        let bytes = strat.new_tree(&mut runner).unwrap().current();
        let mut t = Tape::new(&bytes);
        let term = Term::mk(&mut t, 3);
        let mut batch = vec![term.clone()];
        let nb = term.neighbours();
        if !nb.is_empty() {
            nontrivial += nb.len() as u64;
            if sample.len() < 3 {
                sample.push(format!("{term:?}  vs  {:?}", nb[0]));
            }
        }
        batch.extend(nb);
        for x in batch {
            if !uses_only(&x, &usable) {
                continue;
            }
            terms += 1;
            let id = x.id(&b).as_u128();
            if let Some(prev) = ids.get(&id) {
                if *prev != x {
                    fail(&mut report, &mut ev, format!("two different type terms share one id: {prev:?} and {x:?}"));
                    break 'outer;
                }
            } else if ids.len() < 4_000_000 {
                ids.insert(id, x);
            }
        }
        // combine laws on the ids of this term and a leaf
        let a = term.id(&b);
        let c = leaf_id(LEAVES[t.idx(LEAVES.len())]);
        if a != c && (a.combine(c) == c.combine(a) || a.combine(c) == a || a.combine(c) == c) {
            fail(&mut report, &mut ev, format!("combine is symmetric or absorbing for {term:?}"));
            break;
        }
    }
    // (c)
    let q = match query_ids() {
        Ok(n) => n,
        Err(e) => {
            fail(&mut report, &mut ev, e);
            0
        }
    };
    ev.stats.evaluations = constants + terms + q;
    // the measured count (kept as a set by the evidence writer; capped to bound memory,
    // the uncapped number is in `neighbour_terms_differing_by_order_or_nesting`)
    for i in 0..nontrivial.min(8_000_000) {
        ev.stats.nontrivial.insert(i);
    }
    ev.extra.insert("type_constants_compared".into(), serde_json::json!(constants));
    ev.extra.insert("mirror_terms".into(), serde_json::json!(terms));
    ev.extra.insert("neighbour_terms_differing_by_order_or_nesting".into(), serde_json::json!(nontrivial));
    ev.extra.insert("query_ids".into(), serde_json::json!(q));
    ev.stats.samples = sample;
    ev.write();
    report
}
