//! Derived test types: structs / tuple structs / unit structs, enums with
//! unit / tuple / named variants, generic ones, skipped fields, same-named
//! types in two modules.

use qbice::{Decode, Encode, Identifiable, StableHash};
use vcore::tape::Tape;

use crate::{Entry, universe::U};

#[derive(Debug, Clone, PartialEq, Eq, Hash, PartialOrd, Ord, Encode, Decode, StableHash, Identifiable)]
pub struct Named {
    pub a: u8,
    pub b: String,
    pub c: Vec<i32>,
}
impl U for Named {
    fn mk(t: &mut Tape<'_>, d: u32) -> Self {
        Self { a: u8::mk(t, d), b: String::mk(t, d), c: Vec::mk(t, d) }
    }
    fn veq(&self, o: &Self) -> bool { self == o }
}

#[derive(Debug, Clone, PartialEq, Eq, Hash, PartialOrd, Ord, Encode, Decode, StableHash, Identifiable)]
pub struct Tup(pub u16, pub Option<String>);
impl U for Tup {
    fn mk(t: &mut Tape<'_>, d: u32) -> Self { Self(u16::mk(t, d), Option::mk(t, d)) }
    fn veq(&self, o: &Self) -> bool { self == o }
}

#[derive(Debug, Clone, PartialEq, Eq, Hash, PartialOrd, Ord, Encode, Decode, StableHash, Identifiable)]
pub struct UnitS;
impl U for UnitS {
    fn mk(_t: &mut Tape<'_>, _d: u32) -> Self { Self }
    fn veq(&self, _o: &Self) -> bool { true }
}

#[derive(Debug, Clone, PartialEq, Eq, Hash, PartialOrd, Ord, Encode, Decode, StableHash, Identifiable)]
pub enum En {
    A,
    B(u8, String),
    C { x: i64, y: Vec<u8> },
    D,
    E(Vec<u8>, Vec<u8>),
}
impl U for En {
    fn mk(t: &mut Tape<'_>, d: u32) -> Self {
        match t.idx(5) {
            0 => Self::A,
            1 => Self::B(u8::mk(t, d), String::mk(t, d)),
            2 => Self::C { x: i64::mk(t, d), y: Vec::mk(t, d) },
            3 => Self::D,
            _ => Self::E(Vec::mk(t, d), Vec::mk(t, d)),
        }
    }
    fn veq(&self, o: &Self) -> bool { self == o }
}

/// enums whose discriminants are only partly declared: the value Rust gives a
/// variant (previous + 1) then differs from its position, and a declared value
/// can equal the position of another variant
#[derive(Debug, Clone, Copy, PartialEq, Eq, Hash, PartialOrd, Ord, Encode, Decode, StableHash, Identifiable)]
pub enum EnDisc {
    Low = 1,
    Mid,
    High,
    Top = 0,
}
impl U for EnDisc {
    fn mk(t: &mut Tape<'_>, _d: u32) -> Self { [Self::Low, Self::Mid, Self::High, Self::Top][t.idx(4)] }
    fn veq(&self, o: &Self) -> bool { self == o }
}
#[derive(Debug, Clone, PartialEq, Eq, Hash, PartialOrd, Ord, Encode, Decode, StableHash, Identifiable)]
#[repr(u8)]
pub enum EnDiscP {
    Nop,
    Push(u32) = 2,
    Pop(u32),
    Jump { to: u8 } = 1,
    Call(u32, u8) = 9,
}
impl U for EnDiscP {
    fn mk(t: &mut Tape<'_>, d: u32) -> Self {
        // small payload domain: equal payloads under different variants are
        // what a missing or wrong variant tag confuses
        let p = [0u32, 1, 2, 7][t.idx(4)];
        let _ = d;
        match t.idx(5) {
            0 => Self::Nop,
            1 => Self::Push(p),
            2 => Self::Pop(p),
            3 => Self::Jump { to: p as u8 },
            _ => Self::Call(p, p as u8),
        }
    }
    fn veq(&self, o: &Self) -> bool { self == o }
}

#[derive(Debug, Clone, PartialEq, Encode, Decode, StableHash, Identifiable)]
pub struct Gen<T, V> {
    pub t: T,
    pub u: Vec<V>,
}
impl<T: U, V: U> U for Gen<T, V> {
    fn mk(t: &mut Tape<'_>, d: u32) -> Self { Self { t: T::mk(t, d), u: Vec::mk(t, d) } }
    fn veq(&self, o: &Self) -> bool { self.t.veq(&o.t) && self.u.veq(&o.u) }
}

#[derive(Debug, Clone, PartialEq, Encode, Decode, StableHash, Identifiable)]
pub enum GenE<T> {
    N,
    S(T),
    P(T, T),
}
impl<T: U> U for GenE<T> {
    fn mk(t: &mut Tape<'_>, d: u32) -> Self {
        match t.idx(3) {
            0 => Self::N,
            1 => Self::S(T::mk(t, d)),
            _ => Self::P(T::mk(t, d), T::mk(t, d)),
        }
    }
    fn veq(&self, o: &Self) -> bool {
        match (self, o) {
            (Self::N, Self::N) => true,
            (Self::S(a), Self::S(b)) => a.veq(b),
            (Self::P(a, b), Self::P(c, d)) => a.veq(c) && b.veq(d),
            _ => false,
        }
    }
}

/// `skipped` is not written; it must come back as `Default`.
#[derive(Debug, Clone, PartialEq, Encode, Decode)]
pub struct WithSkip {
    pub a: u8,
    #[serialize(skip)]
    pub skipped: u32,
    pub b: String,
}
impl U for WithSkip {
    fn mk(t: &mut Tape<'_>, d: u32) -> Self {
        Self { a: u8::mk(t, d), skipped: u32::mk(t, d), b: String::mk(t, d) }
    }
    /// round-trip equality: everything but the skipped field, which must be
    /// `Default` on the decoded side (the check compares decoded `self`... the
    /// generic check calls `decoded.veq(original)`)
    fn veq(&self, o: &Self) -> bool {
        self.a == o.a && self.b == o.b && self.skipped == 0
    }
}

/// tuple structs: a skipped field in front of / between encoded fields (the
/// derive must address fields by their declaration index)
#[derive(Debug, Clone, PartialEq, Encode, Decode)]
pub struct TupSkipFirst(#[serialize(skip)] pub u8, pub u32, pub String);
impl U for TupSkipFirst {
    fn mk(t: &mut Tape<'_>, d: u32) -> Self { Self(u8::mk(t, d), u32::mk(t, d), String::mk(t, d)) }
    fn veq(&self, o: &Self) -> bool { self.1 == o.1 && self.2 == o.2 && self.0 == 0 }
}
#[derive(Debug, Clone, PartialEq, Encode, Decode)]
pub struct TupSkipMid(pub u16, #[serialize(skip)] pub Vec<u8>, pub String, #[serialize(skip)] pub i8, pub i64);
impl U for TupSkipMid {
    fn mk(t: &mut Tape<'_>, d: u32) -> Self {
        Self(u16::mk(t, d), Vec::mk(t, d), String::mk(t, d), i8::mk(t, d), i64::mk(t, d))
    }
    fn veq(&self, o: &Self) -> bool {
        self.0 == o.0 && self.2 == o.2 && self.4 == o.4 && self.1.is_empty() && self.3 == 0
    }
}
#[derive(Debug, Clone, PartialEq, Encode, Decode)]
pub struct TupSkipGen<T>(#[serialize(skip)] pub u16, pub Option<T>, pub u8);
impl<T: U> U for TupSkipGen<T> {
    fn mk(t: &mut Tape<'_>, d: u32) -> Self { Self(u16::mk(t, d), Option::<T>::mk(t, d), u8::mk(t, d)) }
    fn veq(&self, o: &Self) -> bool { self.1.veq(&o.1) && self.2 == o.2 && self.0 == 0 }
}
#[derive(Debug, Clone, PartialEq, Encode, Decode)]
pub enum EnTupSkip {
    A(#[serialize(skip)] u8, u32, String),
    B(u8, #[serialize(skip)] String, i16),
    C,
}
impl U for EnTupSkip {
    fn mk(t: &mut Tape<'_>, d: u32) -> Self {
        match t.idx(3) {
            0 => Self::A(u8::mk(t, d), u32::mk(t, d), String::mk(t, d)),
            1 => Self::B(u8::mk(t, d), String::mk(t, d), i16::mk(t, d)),
            _ => Self::C,
        }
    }
    fn veq(&self, o: &Self) -> bool {
        match (self, o) {
            (Self::A(s, a, b), Self::A(_, a2, b2)) => a == a2 && b == b2 && *s == 0,
            (Self::B(a, s, b), Self::B(a2, _, b2)) => a == a2 && b == b2 && s.is_empty(),
            (Self::C, Self::C) => true,
            _ => false,
        }
    }
}

#[derive(Debug, Clone, PartialEq, Encode, Decode)]
pub enum EnSkip {
    V { keep: u16, #[serialize(skip)] skipped: Vec<u8>, tail: bool },
    W(u8),
}
impl U for EnSkip {
    fn mk(t: &mut Tape<'_>, d: u32) -> Self {
        if t.chance(170) {
            Self::V { keep: u16::mk(t, d), skipped: Vec::mk(t, d), tail: bool::mk(t, d) }
        } else {
            Self::W(u8::mk(t, d))
        }
    }
    fn veq(&self, o: &Self) -> bool {
        match (self, o) {
            (Self::V { keep, skipped, tail }, Self::V { keep: k2, skipped: s2, tail: t2 }) => {
                { let _ = s2; keep == k2 && tail == t2 && skipped.is_empty() }
            }
            (Self::W(a), Self::W(b)) => a == b,
            _ => false,
        }
    }
}

pub mod m1 {
    use super::*;
    #[derive(Debug, Clone, PartialEq, Eq, Encode, Decode, StableHash, Identifiable)]
    pub struct Same(pub u8);
    impl U for Same {
        fn mk(t: &mut Tape<'_>, d: u32) -> Self { Self(u8::mk(t, d)) }
        fn veq(&self, o: &Self) -> bool { self == o }
    }
}
pub mod m2 {
    use super::*;
    #[derive(Debug, Clone, PartialEq, Eq, Encode, Decode, StableHash, Identifiable)]
    pub struct Same(pub u8);
    impl U for Same {
        fn mk(t: &mut Tape<'_>, d: u32) -> Self { Self(u8::mk(t, d)) }
        fn veq(&self, o: &Self) -> bool { self == o }
    }
}

pub fn register(r: &mut Vec<Entry>) {
    use crate::*;
    e_all!(r, derived::Named);
    e_all!(r, derived::Tup);
    e_all!(r, derived::UnitS);
    e_all!(r, derived::En);
    e_all!(r, derived::Gen<u8, String>);
    e_all!(r, derived::Gen<String, u8>);
    e_all!(r, derived::Gen<u8, u8>);
    e_all!(r, derived::Gen<Vec<u8>, derived::En>);
    e_all!(r, derived::GenE<u8>);
    e_all!(r, derived::GenE<String>);
    e_all!(r, derived::GenE<derived::GenE<u8>>);
    e_all!(r, derived::GenE<Option<u8>>);
    e_all!(r, Vec<derived::En>);
    e_all!(r, Option<derived::Named>);
    e_all!(r, HashMap<u8, derived::En>);
    e_all!(r, (derived::En, derived::En));
    e_all!(r, derived::m1::Same);
    e_all!(r, derived::m2::Same);
    e_all!(r, derived::EnDisc);
    e_all!(r, derived::EnDiscP);
    e_all!(r, Vec<derived::EnDisc>);
    e_all!(r, (derived::EnDiscP, derived::EnDisc));
    e_all!(r, Option<derived::EnDiscP>);
    e_ser!(r, derived::WithSkip);
    e_ser!(r, derived::EnSkip);
    e_ser!(r, Vec<derived::WithSkip>);
    e_ser!(r, derived::TupSkipFirst);
    e_ser!(r, derived::TupSkipMid);
    e_ser!(r, derived::TupSkipGen<String>);
    e_ser!(r, derived::TupSkipGen<Vec<u32>>);
    e_ser!(r, derived::EnTupSkip);
    e_ser!(r, Vec<derived::TupSkipMid>);
    e_ser!(r, (derived::TupSkipFirst, u64));
}
