//! E5: the value universe. Every member type implements [`U`]: generation of
//! values from the byte tape (boundary-biased), semantic equality (`veq`,
//! which treats all NaNs as one value and compares unordered collections as
//! sets), and a neighbour mutation used by the discrimination check.

use std::{
    borrow::Cow,
    cell::{Cell, RefCell},
    cmp::Reverse,
    collections::{BTreeMap, BTreeSet, BinaryHeap, HashMap, HashSet, LinkedList, VecDeque},
    marker::PhantomData,
    num::{NonZeroI64, NonZeroU8, NonZeroU32, NonZeroU128, Wrapping},
    ops::{Bound, Range, RangeFrom, RangeInclusive, RangeTo, RangeToInclusive},
    path::PathBuf,
    rc::Rc,
    sync::Arc,
    time::Duration,
};

use dashmap::{DashMap, DashSet};
use vcore::tape::Tape;

pub trait U: Sized {
    fn mk(t: &mut Tape<'_>, depth: u32) -> Self;
    fn veq(&self, other: &Self) -> bool;
    /// the same logical value built through a different construction history
    /// (reversed insertion order, other capacity, fresh hasher state); consumes
    /// the tape exactly like `gen`
    fn mk_alt(t: &mut Tape<'_>, depth: u32) -> Self { Self::mk(t, depth) }
    /// like `mk` (same tape consumption), but with two parts re-associated
    /// (the values of two map keys swapped): what a hash that drops structure
    /// would confuse with the value `mk` builds from the same tape. May be
    /// equal to it; the caller filters with `veq`.
    fn mk_neighbour(_t: &mut Tape<'_>, _depth: u32) -> Option<Self> { None }
}

fn boundary_u128(t: &mut Tape<'_>, bits: u32) -> u128 {
    let max: u128 = if bits == 128 { u128::MAX } else { (1u128 << bits) - 1 };
    match t.idx(6) {
        0 => 0,
        1 => max,
        2 => {
            // around a 7-bit varint boundary: 2^(7k) + {-1, 0, 1}
            let k = 1 + t.idx((bits as usize).div_ceil(7));
            let b = 1u128.checked_shl(7 * k as u32).unwrap_or(0);
            (match t.idx(3) {
                0 => b.wrapping_sub(1),
                1 => b,
                _ => b.wrapping_add(1),
            }) & max
        }
        3 => {
            let k = 1 + t.idx((bits as usize) / 8);
            let b = 1u128.checked_shl(8 * k as u32).unwrap_or(0);
            (if t.chance(128) { b.wrapping_sub(1) } else { b.wrapping_add(1) }) & max
        }
        4 => u128::from(t.byte()) & max,
        _ => {
            let mut v = 0u128;
            for _ in 0..(bits / 8).max(1) {
                v = (v << 8) | u128::from(t.byte());
            }
            v & max
        }
    }
}

macro_rules! u_uint {
    ($($t:ty, $bits:expr);*) => {$(
        impl U for $t {
            fn mk(t: &mut Tape<'_>, _d: u32) -> Self { boundary_u128(t, $bits) as $t }
            fn veq(&self, o: &Self) -> bool { self == o }
        }
    )*};
}
u_uint!(u8, 8; u16, 16; u32, 32; u64, 64; u128, 128; usize, 64);

macro_rules! u_sint {
    ($($t:ty, $ut:ty, $bits:expr);*) => {$(
        impl U for $t {
            fn mk(t: &mut Tape<'_>, _d: u32) -> Self {
                match t.idx(5) {
                    0 => <$t>::MIN,
                    1 => <$t>::MAX,
                    2 => -1,
                    // zigzag boundaries: +-2^(7k-1)
                    3 => {
                        let v = boundary_u128(t, $bits) as $ut;
                        ((v >> 1) as $t) ^ -((v & 1) as $t)
                    }
                    _ => boundary_u128(t, $bits) as $ut as $t,
                }
            }
            fn veq(&self, o: &Self) -> bool { self == o }
        }
    )*};
}
u_sint!(i8, u8, 8; i16, u16, 16; i32, u32, 32; i64, u64, 64; i128, u128, 128; isize, usize, 64);

impl U for bool {
    fn mk(t: &mut Tape<'_>, _d: u32) -> Self { t.chance(128) }
    fn veq(&self, o: &Self) -> bool { self == o }
}

impl U for char {
    fn mk(t: &mut Tape<'_>, _d: u32) -> Self {
        let c = [
            0u32, 0x7f, 0x80, 0x7ff, 0x800, 0xd7ff, 0xe000, 0xffff, 0x10000, 0x10ffff,
            'a' as u32, 'z' as u32,
        ][t.idx(12)];
        char::from_u32(c).unwrap_or('x')
    }
    fn veq(&self, o: &Self) -> bool { self == o }
}

impl U for f32 {
    fn mk(t: &mut Tape<'_>, _d: u32) -> Self {
        match t.idx(8) {
            0 => 0.0,
            1 => -0.0,
            2 => f32::NAN,
            3 => f32::from_bits(0x7fc0_0001), // NaN with payload
            4 => f32::INFINITY,
            5 => f32::MIN_POSITIVE / 2.0,     // subnormal
            6 => f32::from_bits(0xffc1_2345), // negative NaN with payload
            _ => f32::from_bits(boundary_u128(t, 32) as u32),
        }
    }
    fn veq(&self, o: &Self) -> bool {
        (self.is_nan() && o.is_nan()) || self.to_bits() == o.to_bits()
    }
}

impl U for f64 {
    fn mk(t: &mut Tape<'_>, _d: u32) -> Self {
        match t.idx(8) {
            0 => 0.0,
            1 => -0.0,
            2 => f64::NAN,
            3 => f64::from_bits(0x7ff8_0000_0000_0001),
            4 => f64::NEG_INFINITY,
            5 => f64::MIN_POSITIVE / 2.0,
            6 => f64::from_bits(0xfff8_1234_5678_9abc),
            _ => f64::from_bits(boundary_u128(t, 64) as u64),
        }
    }
    fn veq(&self, o: &Self) -> bool {
        (self.is_nan() && o.is_nan()) || self.to_bits() == o.to_bits()
    }
}

pub fn mk_len(t: &mut Tape<'_>, depth: u32) -> usize {
    if depth == 0 {
        return t.idx(2);
    }
    match t.idx(10) {
        0 => 0,
        1 => 1,
        2 => 127,
        3 => 128,
        4 => 2,
        5 => 3,
        _ => t.idx(6),
    }
}

impl U for String {
    fn mk(t: &mut Tape<'_>, d: u32) -> Self {
        let n = match t.idx(8) {
            0 => 0,
            1 => 127,
            2 => 128,
            3 if d > 1 => 16384,
            _ => t.idx(5),
        };
        let alphabet = ["a", "b", "c", "\u{e9}", "\u{4e2d}", "\u{1f600}", "\0", "\""];
        let mut s = String::new();
        for _ in 0..n {
            s.push_str(alphabet[t.idx(alphabet.len())]);
        }
        s
    }
    fn veq(&self, o: &Self) -> bool { self == o }
}

impl U for () {
    fn mk(_t: &mut Tape<'_>, _d: u32) -> Self {}
    fn veq(&self, _o: &Self) -> bool { true }
}

impl U for Duration {
    fn mk(t: &mut Tape<'_>, d: u32) -> Self {
        Duration::new(u64::mk(t, d), [0u32, 1, 999_999_999, 500][t.idx(4)])
    }
    fn veq(&self, o: &Self) -> bool { self == o }
}

macro_rules! u_nonzero {
    ($($t:ty, $p:ty);*) => {$(
        impl U for $t {
            fn mk(t: &mut Tape<'_>, d: u32) -> Self {
                <$t>::new(<$p>::mk(t, d)).unwrap_or(<$t>::new(1).unwrap())
            }
            fn veq(&self, o: &Self) -> bool { self == o }
        }
    )*};
}
u_nonzero!(NonZeroU8, u8; NonZeroU32, u32; NonZeroI64, i64; NonZeroU128, u128);

impl U for PathBuf {
    fn mk(t: &mut Tape<'_>, _d: u32) -> Self {
        PathBuf::from(["", "/", "a/b", "/tmp/x y", "rel/../p\u{e9}", "."][t.idx(6)])
    }
    fn veq(&self, o: &Self) -> bool { self == o }
}

// ---------------------------------------------------------------------------
// constructors
// ---------------------------------------------------------------------------

fn seq_eq<'a, T: U + 'a>(
    a: impl ExactSizeIterator<Item = &'a T>,
    b: impl ExactSizeIterator<Item = &'a T>,
) -> bool {
    a.len() == b.len() && a.zip(b).all(|(x, y)| x.veq(y))
}

fn d1(d: u32) -> u32 { d.saturating_sub(1) }

impl<T: U> U for Option<T> {
    fn mk(t: &mut Tape<'_>, d: u32) -> Self {
        if t.chance(70) { None } else { Some(T::mk(t, d1(d))) }
    }
    fn veq(&self, o: &Self) -> bool {
        match (self, o) {
            (None, None) => true,
            (Some(a), Some(b)) => a.veq(b),
            _ => false,
        }
    }
}

impl<A: U, B: U> U for Result<A, B> {
    fn mk(t: &mut Tape<'_>, d: u32) -> Self {
        if t.chance(128) { Ok(A::mk(t, d1(d))) } else { Err(B::mk(t, d1(d))) }
    }
    fn veq(&self, o: &Self) -> bool {
        match (self, o) {
            (Ok(a), Ok(b)) => a.veq(b),
            (Err(a), Err(b)) => a.veq(b),
            _ => false,
        }
    }
}

macro_rules! u_seq {
    ($($c:ident),*) => {$(
        impl<T: U> U for $c<T> {
            fn mk(t: &mut Tape<'_>, d: u32) -> Self {
                let n = mk_len(t, d);
                (0..n).map(|_| T::mk(t, d1(d))).collect()
            }
            fn veq(&self, o: &Self) -> bool { seq_eq(self.iter(), o.iter()) }
        }
    )*};
}
u_seq!(Vec, LinkedList);

/// a deque whose ring buffer is wrapped: the second half is pushed at the
/// back, the first half at the front (stored at the end of the buffer)
fn wrapped_deque<T>(items: Vec<T>) -> VecDeque<T> {
    let n = items.len();
    let mut dq = VecDeque::with_capacity(n + 3);
    let mut front: Vec<T> = Vec::new();
    for (i, x) in items.into_iter().enumerate() {
        if i < n / 2 + n % 2 {
            front.push(x);
        } else {
            dq.push_back(x);
        }
    }
    for x in front.into_iter().rev() {
        dq.push_front(x);
    }
    dq
}

impl<T: U> U for VecDeque<T> {
    fn mk(t: &mut Tape<'_>, d: u32) -> Self {
        let n = mk_len(t, d);
        let items: Vec<T> = (0..n).map(|_| T::mk(t, d1(d))).collect();
        // the layout of the ring buffer is part of the construction history
        if t.chance(128) { items.into_iter().collect() } else { wrapped_deque(items) }
    }
    fn mk_alt(t: &mut Tape<'_>, d: u32) -> Self {
        let n = mk_len(t, d);
        let items: Vec<T> = (0..n).map(|_| T::mk(t, d1(d))).collect();
        if t.chance(128) { wrapped_deque(items) } else { items.into_iter().collect() }
    }
    fn veq(&self, o: &Self) -> bool { seq_eq(self.iter(), o.iter()) }
}

impl<T: U> U for Box<[T]> {
    fn mk(t: &mut Tape<'_>, d: u32) -> Self { Vec::<T>::mk(t, d).into_boxed_slice() }
    fn veq(&self, o: &Self) -> bool { seq_eq(self.iter(), o.iter()) }
}
impl<T: U> U for Arc<[T]> {
    fn mk(t: &mut Tape<'_>, d: u32) -> Self { Vec::<T>::mk(t, d).into() }
    fn veq(&self, o: &Self) -> bool { seq_eq(self.iter(), o.iter()) }
}
impl<T: U> U for Rc<[T]> {
    fn mk(t: &mut Tape<'_>, d: u32) -> Self { Vec::<T>::mk(t, d).into() }
    fn veq(&self, o: &Self) -> bool { seq_eq(self.iter(), o.iter()) }
}

macro_rules! u_wrap {
    ($($c:ident),*) => {$(
        impl<T: U> U for $c<T> {
            fn mk(t: &mut Tape<'_>, d: u32) -> Self { $c::new(T::mk(t, d)) }
            fn veq(&self, o: &Self) -> bool { (**self).veq(&**o) }
        }
    )*};
}
u_wrap!(Box, Rc, Arc);

impl<T: U + Clone> U for Cow<'static, T> {
    fn mk(t: &mut Tape<'_>, d: u32) -> Self { Cow::Owned(T::mk(t, d)) }
    fn veq(&self, o: &Self) -> bool { self.as_ref().veq(o.as_ref()) }
}
impl<T: U + Copy> U for Cell<T> {
    fn mk(t: &mut Tape<'_>, d: u32) -> Self { Cell::new(T::mk(t, d)) }
    fn veq(&self, o: &Self) -> bool { self.get().veq(&o.get()) }
}
impl<T: U> U for RefCell<T> {
    fn mk(t: &mut Tape<'_>, d: u32) -> Self { RefCell::new(T::mk(t, d)) }
    fn veq(&self, o: &Self) -> bool { self.borrow().veq(&o.borrow()) }
}
impl<T: U> U for Wrapping<T> {
    fn mk(t: &mut Tape<'_>, d: u32) -> Self { Wrapping(T::mk(t, d)) }
    fn veq(&self, o: &Self) -> bool { self.0.veq(&o.0) }
}
impl<T: U> U for Reverse<T> {
    fn mk(t: &mut Tape<'_>, d: u32) -> Self { Reverse(T::mk(t, d)) }
    fn veq(&self, o: &Self) -> bool { self.0.veq(&o.0) }
}
impl<T> U for PhantomData<T> {
    fn mk(_t: &mut Tape<'_>, _d: u32) -> Self { PhantomData }
    fn veq(&self, _o: &Self) -> bool { true }
}
impl<T: U> U for [T; 0] {
    fn mk(_t: &mut Tape<'_>, _d: u32) -> Self { [] }
    fn veq(&self, _o: &Self) -> bool { true }
}
impl<T: U> U for [T; 3] {
    fn mk(t: &mut Tape<'_>, d: u32) -> Self {
        [T::mk(t, d1(d)), T::mk(t, d1(d)), T::mk(t, d1(d))]
    }
    fn veq(&self, o: &Self) -> bool { seq_eq(self.iter(), o.iter()) }
}
impl<T: U> U for Range<T> {
    fn mk(t: &mut Tape<'_>, d: u32) -> Self { T::mk(t, d)..T::mk(t, d) }
    fn veq(&self, o: &Self) -> bool { self.start.veq(&o.start) && self.end.veq(&o.end) }
}
impl<T: U> U for RangeInclusive<T> {
    fn mk(t: &mut Tape<'_>, d: u32) -> Self { T::mk(t, d)..=T::mk(t, d) }
    fn veq(&self, o: &Self) -> bool { self.start().veq(o.start()) && self.end().veq(o.end()) }
}
impl<T: U> U for RangeFrom<T> {
    fn mk(t: &mut Tape<'_>, d: u32) -> Self { T::mk(t, d).. }
    fn veq(&self, o: &Self) -> bool { self.start.veq(&o.start) }
}
impl<T: U> U for RangeTo<T> {
    fn mk(t: &mut Tape<'_>, d: u32) -> Self { ..T::mk(t, d) }
    fn veq(&self, o: &Self) -> bool { self.end.veq(&o.end) }
}
impl<T: U> U for RangeToInclusive<T> {
    fn mk(t: &mut Tape<'_>, d: u32) -> Self { ..=T::mk(t, d) }
    fn veq(&self, o: &Self) -> bool { self.end.veq(&o.end) }
}
impl<T: U> U for Bound<T> {
    fn mk(t: &mut Tape<'_>, d: u32) -> Self {
        match t.idx(3) {
            0 => Bound::Unbounded,
            1 => Bound::Included(T::mk(t, d)),
            _ => Bound::Excluded(T::mk(t, d)),
        }
    }
    fn veq(&self, o: &Self) -> bool {
        match (self, o) {
            (Bound::Unbounded, Bound::Unbounded) => true,
            (Bound::Included(a), Bound::Included(b)) | (Bound::Excluded(a), Bound::Excluded(b)) => a.veq(b),
            _ => false,
        }
    }
}

macro_rules! u_tuple {
    ($(($($n:ident $i:tt),+))*) => {$(
        impl<$($n: U),+> U for ($($n,)+) {
            fn mk(t: &mut Tape<'_>, d: u32) -> Self { ($($n::mk(t, d1(d)),)+) }
            fn veq(&self, o: &Self) -> bool { $(self.$i.veq(&o.$i))&&+ }
        }
    )*};
}
u_tuple!((A 0) (A 0, B 1) (A 0, B 1, C 2) (A 0, B 1, C 2, D 3));

impl<T: U + Ord> U for BTreeSet<T> {
    fn mk(t: &mut Tape<'_>, d: u32) -> Self {
        let n = mk_len(t, d).min(8);
        (0..n).map(|_| T::mk(t, d1(d))).collect()
    }
    fn veq(&self, o: &Self) -> bool { self == o }
}
impl<T: U + Ord> U for BinaryHeap<T> {
    fn mk(t: &mut Tape<'_>, d: u32) -> Self {
        let n = mk_len(t, d).min(8);
        (0..n).map(|_| T::mk(t, d1(d))).collect()
    }
    fn mk_alt(t: &mut Tape<'_>, d: u32) -> Self {
        let n = mk_len(t, d).min(8);
        let items: Vec<T> = (0..n).map(|_| T::mk(t, d1(d))).collect();
        let mut h = BinaryHeap::with_capacity(50);
        for i in items.into_iter().rev() {
            h.push(i);
        }
        h
    }
    fn veq(&self, o: &Self) -> bool {
        let mut a: Vec<&T> = self.iter().collect();
        let mut b: Vec<&T> = o.iter().collect();
        a.sort();
        b.sort();
        a == b
    }
}
impl<T: U + Eq + std::hash::Hash> U for HashSet<T> {
    fn mk(t: &mut Tape<'_>, d: u32) -> Self {
        let n = mk_len(t, d).min(8);
        (0..n).map(|_| T::mk(t, d1(d))).collect()
    }
    fn mk_alt(t: &mut Tape<'_>, d: u32) -> Self {
        let n = mk_len(t, d).min(8);
        let items: Vec<T> = (0..n).map(|_| T::mk(t, d1(d))).collect();
        let mut s = HashSet::with_capacity(97);
        for i in items.into_iter().rev() {
            s.insert(i);
        }
        s
    }
    fn veq(&self, o: &Self) -> bool { self == o }
}
impl<T: U + Eq + std::hash::Hash + Clone> U for DashSet<T> {
    fn mk(t: &mut Tape<'_>, d: u32) -> Self {
        let n = mk_len(t, d).min(8);
        (0..n).map(|_| T::mk(t, d1(d))).collect()
    }
    fn mk_alt(t: &mut Tape<'_>, d: u32) -> Self {
        let n = mk_len(t, d).min(8);
        let items: Vec<T> = (0..n).map(|_| T::mk(t, d1(d))).collect();
        let s = DashSet::with_capacity(64);
        for i in items.into_iter().rev() {
            s.insert(i);
        }
        s
    }
    fn veq(&self, o: &Self) -> bool {
        self.len() == o.len() && self.iter().all(|x| o.contains(x.key()))
    }
}
impl<K: U + Ord, V: U> U for BTreeMap<K, V> {
    fn mk(t: &mut Tape<'_>, d: u32) -> Self {
        let n = mk_len(t, d).min(6);
        (0..n).map(|_| (K::mk(t, d1(d)), V::mk(t, d1(d)))).collect()
    }
    fn mk_neighbour(t: &mut Tape<'_>, d: u32) -> Option<Self> {
        let m = Self::mk(t, d);
        let mut it = m.into_iter();
        let (k0, v0) = it.next()?;
        let (k1, v1) = it.next()?;
        let mut m2: Self = it.collect();
        m2.insert(k0, v1);
        m2.insert(k1, v0);
        Some(m2)
    }
    fn veq(&self, o: &Self) -> bool {
        self.len() == o.len() && self.iter().all(|(k, v)| o.get(k).is_some_and(|w| v.veq(w)))
    }
}
impl<K: U + Eq + std::hash::Hash, V: U> U for HashMap<K, V> {
    fn mk(t: &mut Tape<'_>, d: u32) -> Self {
        let n = mk_len(t, d).min(6);
        (0..n).map(|_| (K::mk(t, d1(d)), V::mk(t, d1(d)))).collect()
    }
    fn mk_alt(t: &mut Tape<'_>, d: u32) -> Self {
        let n = mk_len(t, d).min(6);
        let items: Vec<(K, V)> =
            (0..n).map(|_| (K::mk(t, d1(d)), V::mk(t, d1(d)))).collect();
        // `collect` keeps the last value of a repeated key; reversed insertion
        // must keep the same one
        let mut m = HashMap::with_capacity(97);
        for (k, v) in items.into_iter().rev() {
            m.entry(k).or_insert(v);
        }
        m
    }
    fn mk_neighbour(t: &mut Tape<'_>, d: u32) -> Option<Self> {
        let m = Self::mk(t, d);
        let mut it = m.into_iter();
        let (k0, v0) = it.next()?;
        let (k1, v1) = it.next()?;
        let mut m2: Self = it.collect();
        m2.insert(k0, v1);
        m2.insert(k1, v0);
        Some(m2)
    }
    fn veq(&self, o: &Self) -> bool {
        self.len() == o.len() && self.iter().all(|(k, v)| o.get(k).is_some_and(|w| v.veq(w)))
    }
}
impl<K: U + Eq + std::hash::Hash + Clone, V: U> U for DashMap<K, V> {
    fn mk(t: &mut Tape<'_>, d: u32) -> Self {
        let n = mk_len(t, d).min(6);
        (0..n).map(|_| (K::mk(t, d1(d)), V::mk(t, d1(d)))).collect()
    }
    fn mk_alt(t: &mut Tape<'_>, d: u32) -> Self {
        let n = mk_len(t, d).min(6);
        let items: Vec<(K, V)> =
            (0..n).map(|_| (K::mk(t, d1(d)), V::mk(t, d1(d)))).collect();
        let m = DashMap::with_capacity(64);
        for (k, v) in items.into_iter().rev() {
            m.entry(k).or_insert(v);
        }
        m
    }
    fn veq(&self, o: &Self) -> bool {
        self.len() == o.len()
            && self.iter().all(|e| o.get(e.key()).is_some_and(|w| e.value().veq(w.value())))
    }
}
