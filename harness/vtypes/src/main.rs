//! `vtypes <C12|C13|C14> <quick|thorough|replay> [path]` and `vtypes emit <seed>`
//!
//! Compile-time type universe (E5/E6): round trips (C12), stable hashing
//! (C13) and type / query identities (C14).
#![allow(clippy::all, clippy::type_complexity)]

mod universe;

use std::{
    cell::{Cell, RefCell},
    cmp::Reverse,
    collections::{BTreeMap, BTreeSet, BinaryHeap, HashMap, HashSet, LinkedList, VecDeque},
    marker::PhantomData,
    num::{NonZeroI64, NonZeroU8, NonZeroU32, NonZeroU128, Wrapping},
    ops::{Bound, Range, RangeFrom, RangeInclusive, RangeTo, RangeToInclusive},
    path::PathBuf,
    rc::Rc,
    sync::{
        Arc, Mutex,
        atomic::{AtomicUsize, Ordering},
    },
    time::Duration,
};

use dashmap::{DashMap, DashSet};
use qbice_serialize::{Decode, Decoder, Encode, Encoder, Plugin, PostcardDecoder, PostcardEncoder};
use qbice_stable_hash::{Sip128Hasher, StableHash, StableHasher};
use qbice_stable_type_id::{Identifiable, StableTypeID};
use universe::U;
use vcore::{
    Report, Tier,
    driver::{Evidence, Stats, env_seed, hash_bytes, write_replay},
    tape::Tape,
};

// ---------------------------------------------------------------------------
// encode / decode helpers
// ---------------------------------------------------------------------------

fn enc<T: Encode>(v: &T, plugin: &Plugin) -> Vec<u8> {
    let mut buf = Vec::new();
    PostcardEncoder::new(&mut buf).encode(v, plugin).expect("encode");
    buf
}

fn dec_at<T: Decode>(bytes: &[u8], plugin: &Plugin) -> (std::io::Result<T>, u64) {
    let mut d = PostcardDecoder::new(std::io::Cursor::new(bytes));
    let r = d.decode::<T>(plugin);
    let pos = d.get_ref().position();
    (r, pos)
}

/// A recording hasher: the real SipHash state plus the exact byte stream that
/// was written. Sub-hashers (unordered collections) contribute their 128-bit
/// digest to the parent, as in the real hasher.
#[derive(Clone)]
struct Rec {
    sip: Sip128Hasher,
    log: Vec<u8>,
}

impl Rec {
    fn new() -> Self { Self { sip: Sip128Hasher::new_with_keys(11, 22), log: Vec::new() } }
}

impl StableHasher for Rec {
    type Hash = u128;
    fn finish(&self) -> u128 { StableHasher::finish(&self.sip) }
    fn write(&mut self, bytes: &[u8]) {
        StableHasher::write(&mut self.sip, bytes);
        self.log.extend_from_slice(bytes);
    }
    fn sub_hash(&self, f: &mut dyn FnMut(&mut dyn StableHasher<Hash = u128>)) -> u128 {
        let mut sub = Rec { sip: self.sip, log: Vec::new() };
        f(&mut sub);
        StableHasher::finish(&sub.sip)
    }
}

fn stream_of<T: StableHash>(v: &T) -> (Vec<u8>, u128) {
    let mut r = Rec::new();
    v.stable_hash(&mut r);
    let h = StableHasher::finish(&r);
    (r.log, h)
}

fn hash_of<T: StableHash>(v: &T, seed: u64) -> u128 {
    let mut h = Sip128Hasher::new_with_keys(seed, seed ^ 0x55);
    v.stable_hash(&mut h);
    StableHasher::finish(&h)
}

// ---------------------------------------------------------------------------
// per-type checks
// ---------------------------------------------------------------------------

#[derive(Default, Debug, Clone)]
pub struct CaseOut {
    pub violation: Option<String>,
    pub nontrivial: bool,
    pub sample: Option<String>,
}

fn fail(s: String) -> CaseOut { CaseOut { violation: Some(s), ..CaseOut::default() } }

/// C12 for one type and one tape.
fn ser_case<T: U + Encode + Decode + std::fmt::Debug>(bytes: &[u8]) -> CaseOut {
    let plugin = Plugin::default();
    let mut t = Tape::new(bytes);
    let v = T::mk(&mut t, 2);
    let w = T::mk(&mut t, 2);
    let e = enc(&v, &plugin);
    // (1)+(2) round trip, exact consumption (a trailer follows)
    let mut buf = e.clone();
    buf.extend_from_slice(&[0xAB, 0xCD, 0xEF]);
    let (r, pos) = dec_at::<T>(&buf, &plugin);
    let v2 = match r {
        Ok(x) => x,
        Err(err) => return fail(format!("decode(encode(v)) failed: {err}; v = {v:?}")),
    };
    if pos != e.len() as u64 {
        return fail(format!(
            "decoder consumed {pos} bytes, encoder wrote {} (v = {v:?})",
            e.len()
        ));
    }
    if !v2.veq(&v) {
        return fail(format!("decode(encode(v)) = {v2:?} differs from v = {v:?}"));
    }
    // re-encoding equality for ordered encodings is not required; value
    // equality is the oracle
    // (3) self-delimiting: a ++ b ++ trailer
    let ew = enc(&w, &plugin);
    let mut both = e.clone();
    both.extend_from_slice(&ew);
    both.extend_from_slice(&[0x01]);
    {
        let mut d = PostcardDecoder::new(std::io::Cursor::new(&both[..]));
        let a = d.decode::<T>(&plugin);
        let p1 = d.get_ref().position();
        let b = d.decode::<T>(&plugin);
        let p2 = d.get_ref().position();
        match (a, b) {
            (Ok(a), Ok(b)) => {
                if !a.veq(&v) || !b.veq(&w) || p1 != e.len() as u64 || p2 != (e.len() + ew.len()) as u64 {
                    return fail(format!(
                        "back-to-back values were not read back in sequence: wrote {v:?} then {w:?}, read {a:?} (cursor {p1}) then {b:?} (cursor {p2})"
                    ));
                }
            }
            (a, b) => {
                return fail(format!(
                    "back-to-back decode failed: {:?} / {:?} for {v:?}, {w:?}",
                    a.err(),
                    b.err()
                ));
            }
        }
    }
    // prefix-freeness: a proper prefix never decodes with the cursor at its end
    for cut in [0usize, 1, e.len() / 2, e.len().saturating_sub(1)] {
        if cut >= e.len() {
            continue;
        }
        let pre = e[..cut].to_vec();
        let r = std::panic::catch_unwind(|| {
            let plugin = Plugin::default();
            let (r, pos) = dec_at::<T>(&pre, &plugin);
            (r.is_ok(), pos)
        });
        if let Ok((true, pos)) = r {
            if pos == cut as u64 {
                return fail(format!(
                    "a proper prefix ({cut} of {} bytes) of encode({v:?}) decodes successfully and completely: the encoding is not prefix-free",
                    e.len()
                ));
            }
        }
    }
    let zero = enc(&T::mk(&mut Tape::new(&[]), 2), &plugin);
    CaseOut {
        violation: None,
        nontrivial: e.len() > zero.len() || e.len() >= 3,
        sample: Some(format!("{v:?} -> {} bytes", e.len())),
    }
}

/// C13 for one type and one tape; `ser` = also check hash(decode(encode(v))).
fn hash_case<T: U + StableHash + std::fmt::Debug>(
    bytes: &[u8],
    roundtrip: Option<&dyn Fn(&T) -> Result<T, String>>,
) -> CaseOut {
    let mut t = Tape::new(bytes);
    let mut t2 = Tape::new(bytes);
    let v = T::mk(&mut t, 2);
    let alt = T::mk_alt(&mut t2, 2);
    if !v.veq(&alt) {
        return fail(format!("harness: gen and mk_alt disagree: {v:?} vs {alt:?}"));
    }
    let (s1, h1) = stream_of(&v);
    let (_, h1b) = stream_of(&v);
    if h1 != h1b {
        return fail(format!("hashing the same value twice gave different hashes: {v:?}"));
    }
    let (_, h_alt) = stream_of(&alt);
    if h1 != h_alt {
        return fail(format!(
            "equal values with different construction histories hash differently: {v:?}"
        ));
    }
    for seed in [0u64, 7] {
        if hash_of(&v, seed) != hash_of(&alt, seed) {
            return fail(format!("seeded hash differs across construction histories: {v:?}"));
        }
    }
    if let Some(rt) = roundtrip {
        match rt(&v) {
            Ok(v2) => {
                let (_, h2) = stream_of(&v2);
                if h2 != h1 {
                    return fail(format!(
                        "hash changes over a serialization round trip: {v:?} -> {v2:?}"
                    ));
                }
            }
            Err(e) => return fail(format!("round trip failed in hash check: {e}")),
        }
    }
    // discrimination: a neighbour value (one tape byte changed)
    let mut nontrivial = false;
    if !bytes.is_empty() {
        let mut m = bytes.to_vec();
        let pos = (usize::from(bytes[bytes.len() - 1]) * m.len()) >> 8;
        m[pos] = m[pos].wrapping_add(1 + bytes[0] % 7);
        let w = T::mk(&mut Tape::new(&m), 2);
        if !v.veq(&w) {
            nontrivial = true;
            let (s2, h2) = stream_of(&w);
            if s1 == s2 {
                return fail(format!(
                    "two different values feed the same byte stream to the hasher: {v:?} and {w:?}"
                ));
            }
            let (short, long) = if s1.len() <= s2.len() { (&s1, &s2) } else { (&s2, &s1) };
            if long.starts_with(short) {
                return fail(format!(
                    "the hasher stream of one value is a proper prefix of another's: {v:?} / {w:?} (framing ambiguity inside tuples/structs)"
                ));
            }
            if h1 == h2 {
                return fail(format!("different values, equal 128-bit hash: {v:?} / {w:?}"));
            }
        }
    }
    // discrimination against a re-association of the value's own parts
    if let Some(w) = T::mk_neighbour(&mut Tape::new(bytes), 2) {
        if !v.veq(&w) {
            let (s2, h2) = stream_of(&w);
            if s1 == s2 || h1 == h2 {
                return fail(format!(
                    "two different values built from the same parts hash alike: {v:?} and {w:?}"
                ));
            }
        }
    }
    CaseOut { violation: None, nontrivial, sample: Some(format!("{v:?}")) }
}

type CaseFn = Box<dyn Fn(&[u8]) -> CaseOut + Send + Sync>;

pub struct Entry {
    pub name: String,
    pub ser: Option<CaseFn>,
    pub hash: Option<CaseFn>,
    pub id: Option<u128>,
    /// canonical type name (`std::any::type_name`), the identity used by C14
    pub canon: &'static str,
    /// prints hashes of a fixed value list (cross-process comparison)
    pub emit: Option<Box<dyn Fn(&[Vec<u8>]) -> Vec<String> + Send + Sync>>,
}

fn rt<T: Encode + Decode>(v: &T) -> Result<T, String> {
    let plugin = Plugin::default();
    let e = enc(v, &plugin);
    dec_at::<T>(&e, &plugin).0.map_err(|e| e.to_string())
}

fn emit_fn<T: U + StableHash>() -> Box<dyn Fn(&[Vec<u8>]) -> Vec<String> + Send + Sync> {
    Box::new(|tapes| {
        tapes
            .iter()
            .map(|b| format!("{:032x}", hash_of(&T::mk(&mut Tape::new(b), 2), 3)))
            .collect()
    })
}

macro_rules! e_all {
    ($r:expr, $t:ty) => {
        $r.push(Entry {
            name: stringify!($t).replace(' ', ""),
            canon: std::any::type_name::<$t>(),
            ser: Some(Box::new(|b| ser_case::<$t>(b))),
            hash: Some(Box::new(|b| hash_case::<$t>(b, Some(&rt::<$t>)))),
            id: Some(<$t as Identifiable>::STABLE_TYPE_ID.as_u128()),
            emit: Some(emit_fn::<$t>()),
        })
    };
}
macro_rules! e_ser_hash {
    ($r:expr, $t:ty) => {
        $r.push(Entry {
            name: stringify!($t).replace(' ', ""),
            canon: std::any::type_name::<$t>(),
            ser: Some(Box::new(|b| ser_case::<$t>(b))),
            hash: Some(Box::new(|b| hash_case::<$t>(b, Some(&rt::<$t>)))),
            id: None,
            emit: Some(emit_fn::<$t>()),
        })
    };
}
macro_rules! e_ser_id {
    ($r:expr, $t:ty) => {
        $r.push(Entry {
            name: stringify!($t).replace(' ', ""),
            canon: std::any::type_name::<$t>(),
            ser: Some(Box::new(|b| ser_case::<$t>(b))),
            hash: None,
            id: Some(<$t as Identifiable>::STABLE_TYPE_ID.as_u128()),
            emit: None,
        })
    };
}
macro_rules! e_ser {
    ($r:expr, $t:ty) => {
        $r.push(Entry {
            name: stringify!($t).replace(' ', ""),
            canon: std::any::type_name::<$t>(),
            ser: Some(Box::new(|b| ser_case::<$t>(b))),
            hash: None,
            id: None,
            emit: None,
        })
    };
}
macro_rules! e_hash_id {
    ($r:expr, $t:ty) => {
        $r.push(Entry {
            name: stringify!($t).replace(' ', ""),
            canon: std::any::type_name::<$t>(),
            ser: None,
            hash: Some(Box::new(|b| hash_case::<$t>(b, None))),
            id: Some(<$t as Identifiable>::STABLE_TYPE_ID.as_u128()),
            emit: Some(emit_fn::<$t>()),
        })
    };
}
macro_rules! e_id {
    ($r:expr, $t:ty) => {
        $r.push(Entry {
            name: stringify!($t).replace(' ', ""),
            canon: std::any::type_name::<$t>(),
            ser: None,
            hash: None,
            id: Some(<$t as Identifiable>::STABLE_TYPE_ID.as_u128()),
            emit: None,
        })
    };
}

/// every constructor that is defined for any element type
macro_rules! unary_any {
    ($r:expr, $t:ty) => {
        e_all!($r, Option<$t>);
        e_all!($r, Vec<$t>);
        e_all!($r, VecDeque<$t>);
        e_all!($r, LinkedList<$t>);
        e_all!($r, Box<$t>);
        e_all!($r, Rc<$t>);
        e_all!($r, Arc<$t>);
        e_all!($r, Box<[$t]>);
        e_all!($r, Arc<[$t]>);
        e_all!($r, Rc<[$t]>);
        e_all!($r, [$t; 0]);
        e_all!($r, [$t; 3]);
        e_all!($r, Range<$t>);
        e_all!($r, RangeInclusive<$t>);
        e_all!($r, RangeFrom<$t>);
        e_all!($r, RangeTo<$t>);
        e_all!($r, RangeToInclusive<$t>);
        e_all!($r, ($t,));
        e_all!($r, PhantomData<$t>);
        e_ser_id!($r, RefCell<$t>);
        e_ser_id!($r, Wrapping<$t>);
        e_ser_id!($r, Bound<$t>);
        e_ser!($r, Reverse<$t>);
    };
}
macro_rules! unary_copy {
    ($r:expr, $t:ty) => {
        e_ser_id!($r, Cell<$t>);
    };
}
macro_rules! unary_ordhash {
    ($r:expr, $t:ty) => {
        e_all!($r, BTreeSet<$t>);
        e_all!($r, HashSet<$t>);
        e_ser_hash!($r, DashSet<$t>);
        e_hash_id!($r, BinaryHeap<$t>);
    };
}
macro_rules! binary {
    ($r:expr, $a:ty, $b:ty) => {
        e_all!($r, Result<$a, $b>);
        e_all!($r, ($a, $b));
    };
}
macro_rules! binary_map {
    ($r:expr, $k:ty, $v:ty) => {
        e_all!($r, HashMap<$k, $v>);
        e_all!($r, BTreeMap<$k, $v>);
        e_ser_hash!($r, DashMap<$k, $v>);
    };
}

mod derived;

pub fn registry() -> Vec<Entry> {
    let mut r: Vec<Entry> = Vec::new();
    macro_rules! leaf {
        ($($t:ty),*) => {$( e_all!(r, $t); unary_any!(r, $t); )*};
    }
    macro_rules! leaf_ordhash {
        ($($t:ty),*) => {$( unary_ordhash!(r, $t); )*};
    }
    macro_rules! leaf_copy {
        ($($t:ty),*) => {$( unary_copy!(r, $t); )*};
    }
    leaf!(
        u8, u16, u32, u64, u128, usize, i8, i16, i32, i64, i128, isize, bool, char, f32, f64,
        String, (), Duration, NonZeroU8, NonZeroU32, NonZeroI64, NonZeroU128, PathBuf
    );
    leaf_ordhash!(
        u8, u16, u32, u64, u128, usize, i8, i16, i32, i64, i128, isize, bool, char, String, (),
        Duration, NonZeroU8, NonZeroU32, NonZeroI64, NonZeroU128, PathBuf
    );
    leaf_copy!(u8, u16, u32, u64, u128, usize, i8, i16, i32, i64, i128, isize, bool, char, f32, f64, ());
    macro_rules! pairs {
        ($($a:ty),*) => {$(
            binary!(r, $a, u8); binary!(r, $a, i64); binary!(r, $a, String); binary!(r, $a, bool); binary!(r, $a, ()); binary!(r, $a, f64);
        )*};
    }
    pairs!(u8, i64, String, bool, (), f64, Vec<u8>);
    macro_rules! maps {
        ($($k:ty),*) => {$(
            binary_map!(r, $k, u8); binary_map!(r, $k, i64); binary_map!(r, $k, String); binary_map!(r, $k, ()); binary_map!(r, $k, f32); binary_map!(r, $k, Vec<u16>);
        )*};
    }
    maps!(u8, i64, String, bool, (), char, u128);
    // fixed sample of depth 2 / 3 types
    e_all!(r, Vec<Option<(u8, String)>>);
    e_all!(r, Option<Option<u8>>);
    e_all!(r, Option<Option<Option<()>>>);
    e_all!(r, Vec<Vec<u8>>);
    e_all!(r, Vec<Vec<Vec<String>>>);
    e_all!(r, (Vec<u8>, Vec<u8>));
    e_all!(r, (String, String));
    e_all!(r, (Vec<String>, String));
    e_all!(r, (Option<u8>, Option<u8>));
    e_all!(r, ((u8, u8), u8));
    e_all!(r, (u8, (u8, u8)));
    e_all!(r, (u8, u8, u8));
    e_all!(r, (u8, u16, u32, u64));
    e_all!(r, (u64, u32, u16, u8));
    e_all!(r, [[u8; 3]; 3]);
    e_all!(r, [Vec<u8>; 3]);
    e_all!(r, Vec<[u16; 3]>);
    e_all!(r, Result<Vec<u8>, String>);
    e_all!(r, Result<Result<u8, u8>, u8>);
    e_all!(r, Result<u8, Result<u8, u8>>);
    e_all!(r, HashMap<String, Vec<Option<i32>>>);
    e_all!(r, BTreeMap<u8, BTreeMap<u8, String>>);
    e_all!(r, HashMap<u8, HashSet<u8>>);
    e_all!(r, HashSet<Vec<u8>>);
    e_all!(r, HashSet<(u8, String)>);
    e_all!(r, BTreeSet<Vec<String>>);
    e_all!(r, Vec<HashMap<u8, u8>>);
    e_all!(r, Option<Vec<(String, Option<Vec<u8>>)>>);
    e_all!(r, Arc<Vec<Arc<String>>>);
    e_all!(r, Box<Option<Box<u64>>>);
    e_all!(r, VecDeque<LinkedList<i8>>);
    e_all!(r, (Range<u8>, RangeInclusive<i64>));
    e_all!(r, Vec<Duration>);
    e_all!(r, Option<PathBuf>);
    e_all!(r, Vec<(f32, f64)>);
    e_all!(r, Arc<[Option<String>]>);
    e_all!(r, Arc<[i64]>);
    e_ser_hash!(r, DashMap<String, Vec<u8>>);
    e_ser_hash!(r, Vec<DashSet<u8>>);
    // derived types
    derived::register(&mut r);
    #[cfg(feature = "extras")]
    extras::register(&mut r);
    r
}

#[cfg(feature = "extras")]
mod extras;

// ---------------------------------------------------------------------------
// drivers
// ---------------------------------------------------------------------------

use proptest::{
    collection::vec,
    prelude::any,
    test_runner::{Config, RngSeed, TestCaseError, TestError, TestRunner},
};

fn pick_ser(e: &Entry) -> Option<&CaseFn> { e.ser.as_ref() }
fn pick_hash(e: &Entry) -> Option<&CaseFn> { e.hash.as_ref() }

/// `VERIF_TYPE_RANGE=lo..hi` restricts a worker to a slice of the registry
/// (used to locate a type whose check aborts the process).
fn type_range() -> Option<(usize, usize)> {
    let v = std::env::var("VERIF_TYPE_RANGE").ok()?;
    let (a, b) = v.split_once("..")?;
    Some((a.parse().ok()?, b.parse().ok()?))
}

struct TypeFailure {
    ty: String,
    bytes: Vec<u8>,
    message: String,
}

/// Run `cases` generated tapes through the selected check of every entry,
/// sharded over threads by type. Returns statistics and the first failure of
/// every failing type (shrunk by proptest).
fn run_types(
    reg: &[Entry],
    pick: &(dyn Fn(&Entry) -> Option<&CaseFn> + Sync),
    seed: u64,
    cases: u32,
    tolerated_types: &[String],
) -> (Stats, Vec<TypeFailure>, u64) {
    let next = AtomicUsize::new(0);
    let stats = Mutex::new(Stats::default());
    let failures = Mutex::new(Vec::new());
    let excluded = std::sync::atomic::AtomicU64::new(0);
    let nthreads = vcore::driver::shards();
    std::thread::scope(|scope| {
        for _ in 0..nthreads {
            scope.spawn(|| {
                loop {
                    let i = next.fetch_add(1, Ordering::SeqCst);
                    if i >= reg.len() {
                        break;
                    }
                    let e = &reg[i];
                    if let Some((lo, hi)) = type_range() {
                        if i < lo || i >= hi {
                            continue;
                        }
                    }
                    let Some(f) = pick(e) else { continue };
                    if tolerated_types.iter().any(|t| *t == e.name) {
                        excluded.fetch_add(u64::from(cases), Ordering::SeqCst);
                        continue;
                    }
                    let mut local = Stats::default();
                    let failed = std::cell::Cell::new(false);
                    let last = std::cell::RefCell::new(String::new());
                    let mut runner = TestRunner::new(Config {
                        cases,
                        failure_persistence: None,
                        rng_seed: RngSeed::Fixed(seed.wrapping_mul(7919).wrapping_add(hash_bytes(e.name.as_bytes()))),
                        max_shrink_iters: 2000,
                        ..Config::default()
                    });
                    let lref = std::cell::RefCell::new(&mut local);
                    let res = runner.run(&vec(any::<u8>(), 0..96), |bytes| {
                        let out = std::panic::catch_unwind(std::panic::AssertUnwindSafe(|| f(&bytes)))
                            .unwrap_or_else(|_| {
                                fail(format!(
                                    "panic: {}",
                                    vcore::util::take_panics().join(" | ")
                                ))
                            });
                        if !failed.get() {
                            let mut st = lref.borrow_mut();
                            st.evaluations += 1;
                            if out.nontrivial {
                                st.nontrivial.insert(hash_bytes(&bytes) ^ hash_bytes(e.name.as_bytes()));
                                if st.samples.is_empty() {
                                    if let Some(s) = &out.sample {
                                        st.samples.push(format!("{}: {s}", e.name));
                                    }
                                }
                            }
                        }
                        if let Some(v) = out.violation {
                            failed.set(true);
                            *last.borrow_mut() = v.clone();
                            return Err(TestCaseError::fail(v));
                        }
                        Ok(())
                    });
                    drop(lref);
                    if let Err(TestError::Fail(_, bytes)) = res {
                        let msg = f(&bytes).violation.unwrap_or_else(|| last.borrow().clone());
                        failures.lock().unwrap().push(TypeFailure {
                            ty: e.name.clone(),
                            bytes,
                            message: msg,
                        });
                    }
                    *local.labels.entry("types_checked".into()).or_insert(0) += 1;
                    let mut g = stats.lock().unwrap();
                    let keep = g.samples.len() < 6;
                    let samples = std::mem::take(&mut local.samples);
                    g.merge(local);
                    if keep {
                        g.samples.extend(samples);
                    }
                }
            });
        }
    });
    (
        stats.into_inner().unwrap(),
        failures.into_inner().unwrap(),
        excluded.load(Ordering::SeqCst),
    )
}

fn report_failures(
    prop: &str,
    fails: Vec<TypeFailure>,
    report: &mut Report,
    ev: &mut Evidence,
) {
    for f in fails {
        let sig = format!("type:{}", f.ty);
        if let Some(k) = vcore::known::is_known(prop, &sig) {
            report.known.push(format!("KNOWN-FINDING: property={prop} {}", k.what));
            continue;
        }
        let doc = serde_json::json!({
            "property": prop, "type": f.ty, "bytes": f.bytes, "message": f.message,
        });
        let path = write_replay(prop, &doc, &format!("{}\ntype {}\nbytes {:?}", f.message, f.ty, f.bytes));
        report.violations.push((path.display().to_string(), format!("{}: {}", f.ty, f.message)));
        ev.violations += 1;
    }
}

fn replay_regressions(
    prop: &str,
    reg: &[Entry],
    pick: &dyn Fn(&Entry) -> Option<&CaseFn>,
    report: &mut Report,
) {
    for k in vcore::known::load().into_iter().filter(|f| f.property == prop) {
        let Some(path) = &k.replay else { continue };
        let full = if path.starts_with('/') { path.clone() } else { format!("/verif/{path}") };
        let Some(doc) = std::fs::read_to_string(&full)
            .ok()
            .and_then(|t| serde_json::from_str::<serde_json::Value>(&t).ok())
        else {
            report.inconclusive.push(format!("replay {full} unreadable"));
            continue;
        };
        let ty = doc["type"].as_str().unwrap_or("");
        let bytes: Vec<u8> = doc["bytes"]
            .as_array()
            .map(|a| a.iter().map(|x| x.as_u64().unwrap() as u8).collect())
            .unwrap_or_default();
        let Some(e) = reg.iter().find(|e| e.name == ty) else {
            // the type is not part of this build (feature off)
            continue;
        };
        let Some(f) = pick(e) else { continue };
        let out = std::panic::catch_unwind(std::panic::AssertUnwindSafe(|| f(&bytes)))
            .unwrap_or_else(|_| fail("panic".into()));
        match (k.status.as_str(), out.violation) {
            ("known", Some(_)) => {
                let line = format!("KNOWN-FINDING: property={prop} {}", k.what);
                if !report.known.contains(&line) {
                    report.known.push(line);
                }
            }
            ("known", None) => {}
            (_, Some(v)) => report.violations.push((full, v)),
            _ => {}
        }
    }
}

fn known_types(prop: &str) -> Vec<String> {
    vcore::known::tolerated(prop)
        .into_iter()
        .filter_map(|s| s.strip_prefix("type:").map(str::to_string))
        .collect()
}

// ---------------------------------------------------------------------------
// C12
// ---------------------------------------------------------------------------

fn enumerate_integers() -> (u64, Option<String>) {
    let plugin = Plugin::default();
    let mut n = 0u64;
    macro_rules! one {
        ($t:ty, $v:expr) => {{
            let v: $t = $v;
            let e = enc(&v, &plugin);
            let mut buf = e.clone();
            buf.push(0x7f);
            let (r, pos) = dec_at::<$t>(&buf, &plugin);
            n += 1;
            match r {
                Ok(x) if x == v && pos == e.len() as u64 => {}
                other => {
                    return (
                        n,
                        Some(format!(
                            "{} value {v}: decoded {:?} at cursor {pos}, encoding {e:?}",
                            stringify!($t),
                            other.ok()
                        )),
                    );
                }
            }
        }};
    }
    for v in 0..=u16::MAX {
        one!(u16, v);
        one!(i16, v as i16);
    }
    for v in 0..=u8::MAX {
        one!(u8, v);
        one!(i8, v as i8);
    }
    macro_rules! wide {
        ($t:ty, $it:ty, $bits:expr) => {{
            let mut vals: Vec<$t> = vec![0, 1, <$t>::MAX, <$t>::MAX - 1];
            for k in 1..=($bits / 7) {
                let b: $t = (1 as $t).checked_shl(7 * k).unwrap_or(0);
                vals.extend([b.wrapping_sub(1), b, b.wrapping_add(1)]);
            }
            for k in 1..($bits / 8) {
                let b: $t = (1 as $t) << (8 * k);
                vals.extend([b - 1, b + 1]);
            }
            for v in vals {
                one!($t, v);
                one!($it, v as $it);
                one!($it, (v as $it).wrapping_neg());
                // zigzag neighbours
                one!($it, ((v >> 1) as $it) ^ -((v & 1) as $it));
            }
            one!($it, <$it>::MIN);
            one!($it, <$it>::MAX);
        }};
    }
    wide!(u32, i32, 32);
    wide!(u64, i64, 64);
    wide!(u128, i128, 128);
    wide!(usize, isize, 64);
    (n, None)
}

/// Sequence types at the lengths where the length prefix changes its width
/// (and around the sizes decoders like to treat specially): generated values
/// are short, so these are enumerated. Each is written followed by a sentinel
/// and must come back unchanged with the cursor exactly behind it.
fn enumerate_long_sequences() -> (u64, Option<String>) {
    use std::{collections::{LinkedList, VecDeque}, rc::Rc, sync::Arc};
    let plugin = Plugin::default();
    let mut n = 0u64;
    let lens: [usize; 14] = [
        127, 128, 129, 1023, 1024, 1025, 16_383, 16_384, 16_385, 65_535, 65_536, 65_537, (1 << 21) - 1,
        (1 << 21) + 1,
    ];
    macro_rules! seq {
        ($t:ty, $mk:expr) => {{
            for len in lens {
                let v: $t = $mk(len);
                let e = enc(&(v.clone(), 0x5a5a_u16), &plugin);
                let (r, pos) = dec_at::<($t, u16)>(&e, &plugin);
                n += 1;
                match r {
                    Ok((x, s)) if x == v && s == 0x5a5a && pos == e.len() as u64 => {}
                    Ok((x, s)) => {
                        return (
                            n,
                            Some(format!(
                                "{} of length {len} followed by a u16: decoded length {}, sentinel {s:#x}, cursor {pos} of {}",
                                stringify!($t),
                                x.len(),
                                e.len()
                            )),
                        );
                    }
                    Err(err) => {
                        return (
                            n,
                            Some(format!("{} of length {len} followed by a u16: decode failed: {err}", stringify!($t))),
                        );
                    }
                }
            }
        }};
    }
    let bytes = |len: usize| -> Vec<u8> { (0..len).map(|i| (i * 31 % 251) as u8).collect() };
    seq!(Vec<u8>, |len| bytes(len));
    seq!(Vec<u16>, |len: usize| (0..len).map(|i| (i * 7) as u16).collect::<Vec<u16>>());
    seq!(Vec<()>, |len: usize| vec![(); len]);
    seq!(VecDeque<u8>, |len| bytes(len).into_iter().collect::<VecDeque<u8>>());
    seq!(LinkedList<u8>, |len: usize| bytes(len.min(70_000)).into_iter().collect::<LinkedList<u8>>());
    seq!(Box<[u8]>, |len| bytes(len).into_boxed_slice());
    seq!(Arc<[u8]>, |len| Arc::<[u8]>::from(bytes(len)));
    seq!(Rc<[u8]>, |len| Rc::<[u8]>::from(bytes(len)));
    seq!(String, |len: usize| "a".repeat(len));
    seq!(Vec<String>, |len: usize| vec![String::from("x"); len.min(70_000)]);
    seq!(std::collections::BTreeSet<u32>, |len: usize| (0..len.min(70_000) as u32).collect::<std::collections::BTreeSet<u32>>());
    seq!(std::collections::BTreeMap<u32, u8>, |len: usize| (0..len.min(70_000) as u32).map(|i| (i, i as u8)).collect::<std::collections::BTreeMap<u32, u8>>());
    seq!(std::collections::HashSet<u32>, |len: usize| (0..len.min(70_000) as u32).collect::<std::collections::HashSet<u32>>());
    seq!(std::collections::HashMap<u32, u8>, |len: usize| (0..len.min(70_000) as u32).map(|i| (i, i as u8)).collect::<std::collections::HashMap<u32, u8>>());
    (n, None)
}

fn check_c12(tier: Tier) -> Report {
    let prop = "C12";
    let seed = env_seed();
    let mut report = Report { property: prop.into(), ..Report::default() };
    let mut ev = Evidence::new(
        prop,
        tier.name(),
        seed,
        "exploration",
        "compile-time type universe closed under the provided constructors (all leaves; every unary constructor over every leaf; binary constructors over leaf pairs; a fixed sample of depth-2/3 types; derived structs/enums incl. generic ones and skipped fields; with the 'extras' build also SmallVec and BitVec) x proptest-generated tapes decoded into boundary-biased values; per value: decode(encode(v)) == v, decoder cursor == bytes written (with a trailer), a ++ b ++ trailer reads back in sequence, no proper prefix decodes completely; plus exhaustive enumeration of all u8/i8/u16/i16 values and every 2^(7k)+{-1,0,1}, 2^(8k)+-1, MIN/MAX of the wider integers, plus 14 sequence/map/string types at the lengths 127..129, 1023..1025, 16383..16385, 65535..65537, 2^21-1, 2^21+1 (each followed by a sentinel). non-trivial = a value whose encoding is longer than the type's smallest generated value or >= 3 bytes; distinct = (type, tape)",
    );
    ev.assumptions = vec![
        "semantic equality: NaNs are one value; unordered collections compare as sets/maps".into(),
        "Interned handles are covered by C15".into(),
    ];
    let reg = registry();
    let pick = pick_ser;
    replay_regressions(prop, &reg, &pick, &mut report);
    let (n, bad) = enumerate_integers();
    ev.extra.insert("enumerated_integer_values".into(), serde_json::json!(n));
    if let Some(b) = bad {
        let doc = serde_json::json!({"property": prop, "type": "integer-enumeration", "message": b});
        let path = write_replay(prop, &doc, &b);
        report.violations.push((path.display().to_string(), b));
        ev.violations += 1;
    }
    // only in the base variant (the extras build adds types, not lengths)
    if std::env::var_os("VERIF_EVIDENCE_MERGE").is_none() {
        let (m, bad) = enumerate_long_sequences();
        ev.extra.insert("enumerated_long_sequences".into(), serde_json::json!(m));
        if let Some(b) = bad {
            let doc = serde_json::json!({"property": prop, "type": "long-sequence-enumeration", "message": b});
            let path = write_replay(prop, &doc, &b);
            report.violations.push((path.display().to_string(), b));
            ev.violations += 1;
        }
    }
    let cases = if tier == Tier::Thorough { 20_000 } else { 2000 };
    let tolerated = known_types(prop);
    let (mut stats, fails, excluded) = run_types(&reg, &pick, seed, cases, &tolerated);
    stats.evaluations += n;
    ev.stats.merge(stats);
    ev.extra.insert("cases_excluded_by_known_findings".into(), serde_json::json!(excluded));
    ev.extra.insert(
        "types_in_universe".into(),
        serde_json::json!(reg.iter().filter(|e| e.ser.is_some()).count()),
    );
    report_failures(prop, fails, &mut report, &mut ev);
    ev.write();
    report
}

// ---------------------------------------------------------------------------
// C13
// ---------------------------------------------------------------------------

fn emit(seed: u64) -> Vec<String> {
    // fixed tapes from proptest's deterministic generator
    use proptest::strategy::{Strategy, ValueTree};
    let mut runner = TestRunner::new(Config {
        rng_seed: RngSeed::Fixed(seed),
        failure_persistence: None,
        ..Config::default()
    });
    let strat = vec(any::<u8>(), 0..64);
    let tapes: Vec<Vec<u8>> =
        (0..6).map(|_| strat.new_tree(&mut runner).unwrap().current()).collect();
    let mut out = Vec::new();
    for e in registry() {
        if let Some(f) = &e.emit {
            out.push(format!("H {} {}", e.name, f(&tapes).join(",")));
        }
        if let Some(id) = e.id {
            out.push(format!("I {} {id:032x}", e.name));
        }
    }
    out
}

fn cross_process(seed: u64) -> Result<u64, String> {
    let exe = std::env::current_exe().map_err(|e| e.to_string())?;
    let mut outs = Vec::new();
    for _ in 0..3 {
        let o = std::process::Command::new(&exe)
            .arg("emit")
            .arg(seed.to_string())
            .output()
            .map_err(|e| e.to_string())?;
        if !o.status.success() {
            return Err(format!("emit child failed: {}", String::from_utf8_lossy(&o.stderr)));
        }
        outs.push(String::from_utf8_lossy(&o.stdout).to_string());
    }
    let lines = outs[0].lines().count() as u64;
    for (i, o) in outs.iter().enumerate().skip(1) {
        if *o != outs[0] {
            let diff = outs[0]
                .lines()
                .zip(o.lines())
                .find(|(a, b)| a != b)
                .map(|(a, b)| format!("{a}  !=  {b}"))
                .unwrap_or_default();
            return Err(format!(
                "process 0 and process {i} print different hashes / type ids: {diff}"
            ));
        }
    }
    Ok(lines)
}

fn check_c13(tier: Tier) -> Report {
    let prop = "C13";
    let seed = env_seed();
    let mut report = Report { property: prop.into(), ..Report::default() };
    let mut ev = Evidence::new(
        prop,
        tier.name(),
        seed,
        "exploration",
        "type universe of C12 (types with StableHash) x proptest tapes; per tape: value v, the same logical value rebuilt through another construction history (reversed insertion order, other capacity, fresh RandomState), decode(encode(v)); all must hash equally under three hasher keys; a neighbour value w (one tape byte changed) with w != v must feed a different, non-prefix byte stream to an instrumented hasher and get a different 128-bit hash; plus three independent processes printing the hashes of a fixed value list (and all type ids), compared byte for byte. non-trivial = a tape whose neighbour value differs from v; distinct = (type, tape)",
    );
    ev.assumptions = vec![
        "value identity of floats is bit identity with all NaNs identified (documented NaN normalisation): 0.0 and -0.0 are different values".into(),
        "128-bit SipHash collisions are out of reach; the claim checked is 'different values => different unambiguous streams'".into(),
    ];
    let reg = registry();
    let pick = pick_hash;
    replay_regressions(prop, &reg, &pick, &mut report);
    let cases = if tier == Tier::Thorough { 30_000 } else { 4500 };
    let tolerated = known_types(prop);
    let (stats, fails, excluded) = run_types(&reg, &pick, seed, cases, &tolerated);
    ev.stats.merge(stats);
    ev.extra.insert("cases_excluded_by_known_findings".into(), serde_json::json!(excluded));
    report_failures(prop, fails, &mut report, &mut ev);
    match cross_process(seed) {
        Ok(lines) => {
            ev.extra.insert("cross_process_lines_compared_x3".into(), serde_json::json!(lines));
        }
        Err(e) => {
            let doc = serde_json::json!({"property": prop, "type": "cross-process", "message": e});
            let path = write_replay(prop, &doc, &e);
            report.violations.push((path.display().to_string(), e));
            ev.violations += 1;
        }
    }
    ev.write();
    report
}

// ---------------------------------------------------------------------------
// C14
// ---------------------------------------------------------------------------

mod ids;

fn main() {
    let args: Vec<String> = std::env::args().collect();
    vcore::util::install_panic_hook();
    if args.len() >= 2 && args[1] == "emit" {
        let seed = args.get(2).and_then(|s| s.parse().ok()).unwrap_or(0);
        for l in emit(seed) {
            println!("{l}");
        }
        return;
    }
    if args.len() < 3 {
        eprintln!("usage: vtypes <C12|C13|C14> <quick|thorough|replay> [path]");
        std::process::exit(2);
    }
    // Supervisor: the checks run in a worker process, because a broken decoder
    // can abort the process (allocation of an absurd size) instead of failing.
    if std::env::var_os("VERIF_WORKER").is_none() && args[2] != "replay" {
        std::process::exit(supervise(&args));
    }
    let tier = match std::env::var("VERIF_TIER").ok().as_deref().unwrap_or(&args[2]) {
        "thorough" => Tier::Thorough,
        _ => Tier::Quick,
    };
    let report = if args[2] == "replay" {
        let path = args.get(3).expect("path");
        let doc: serde_json::Value =
            serde_json::from_str(&std::fs::read_to_string(path).expect("read")).expect("json");
        let mut report = Report { property: args[1].clone(), ..Report::default() };
        let reg = registry();
        let ty = doc["type"].as_str().unwrap_or("");
        let bytes: Vec<u8> = doc["bytes"]
            .as_array()
            .map(|a| a.iter().map(|x| x.as_u64().unwrap() as u8).collect())
            .unwrap_or_default();
        match reg.iter().find(|e| e.name == ty) {
            None => report.inconclusive.push(format!("type {ty} not in this build")),
            Some(e) => {
                let f = if args[1] == "C12" { e.ser.as_ref() } else { e.hash.as_ref() };
                if let Some(f) = f {
                    if let Some(v) = f(&bytes).violation {
                        report.violations.push((path.clone(), format!("{ty}: {v}")));
                    }
                }
            }
        }
        report
    } else {
        match args[1].as_str() {
            "C12" => check_c12(tier),
            "C13" => check_c13(tier),
            "C14" => ids::check_c14(tier),
            _ => {
                eprintln!("unknown property");
                std::process::exit(2);
            }
        }
    };
    for k in &report.known {
        println!("{k}");
    }
    for (path, msg) in &report.violations {
        println!("VIOLATION property={} replay={}", report.property, path);
        println!("  {msg}");
    }
    for n in &report.inconclusive {
        println!("INCONCLUSIVE property={} {}", report.property, n);
    }
    if !report.violations.is_empty() {
        std::process::exit(1);
    }
    if !report.inconclusive.is_empty() {
        std::process::exit(2);
    }
    println!("OK property={}", report.property);
}

fn run_worker(args: &[String], range: Option<(usize, usize)>) -> (Option<i32>, String) {
    let exe = std::env::current_exe().expect("exe");
    let mut c = std::process::Command::new(exe);
    c.args(&args[1..]).env("VERIF_WORKER", "1");
    if let Some((lo, hi)) = range {
        c.env("VERIF_TYPE_RANGE", format!("{lo}..{hi}"));
        // bisection runs must not touch the evidence of the real run
        c.env("VERIF_NO_EVIDENCE", "1");
    }
    let o = c.output().expect("spawn worker");
    (o.status.code(), String::from_utf8_lossy(&o.stdout).to_string())
}

fn supervise(args: &[String]) -> i32 {
    let (code, out) = run_worker(args, None);
    if let Some(c) = code {
        if c == 0 || c == 1 || c == 2 {
            print!("{out}");
            return c;
        }
    }
    // the worker died: find the first type whose check kills the process
    let n = registry().len();
    let (mut lo, mut hi) = (0usize, n); // invariant: a crash happens in [0, hi)
    let crashes = |m: usize| -> bool {
        let (c, _) = run_worker(args, Some((0, m)));
        !matches!(c, Some(0 | 1 | 2))
    };
    if !crashes(n) {
        println!("INCONCLUSIVE property={} worker process died (exit {code:?}) but the crash does not reproduce per type", args[1]);
        return 2;
    }
    while hi - lo > 1 {
        let mid = (lo + hi) / 2;
        if crashes(mid) {
            hi = mid;
        } else {
            lo = mid;
        }
    }
    let reg = registry();
    let ty = reg[hi - 1].name.clone();
    let prop = args[1].clone();
    let msg = format!(
        "{ty}: the process is aborted while values of this type are checked (e.g. the decoder asks for an absurd allocation after reading a wrong length)"
    );
    let sig = format!("type:{ty}");
    if let Some(k) = vcore::known::is_known(&prop, &sig) {
        println!("KNOWN-FINDING: property={prop} {}", k.what);
        println!("INCONCLUSIVE property={prop} a known finding aborts the worker; exclude the type to continue");
        return 2;
    }
    let doc = serde_json::json!({"property": prop, "type": ty, "bytes": [], "message": msg});
    let path = write_replay(&prop, &doc, &msg);
    let mut ev = Evidence::new(&prop, &args[2], env_seed(), "exploration", "worker process aborted; see violation");
    ev.stats.evaluations = 1;
    ev.stats.nontrivial.insert(1);
    ev.stats.nontrivial.insert(2);
    ev.stats.samples.push(msg.clone());
    ev.violations = 1;
    ev.write();
    println!("VIOLATION property={prop} replay={}", path.display());
    println!("  {msg}");
    1
}

// re-exports for submodules
pub(crate) use {enc as enc_value, fail as fail_case};
#[allow(unused_imports)]
pub(crate) use {StableTypeID as TypeIdAlias, Identifiable as IdentifiableAlias};
