//! `vcheck <property> <quick|thorough|replay> [path]`
//!
//! exit 0 = property held on everything explored (KNOWN-FINDING lines allowed)
//! exit 1 = violation, with a line `VIOLATION property=<id> replay=<path>`
//! exit 2 = inconclusive (watchdog, infrastructure)

use vcore::{Report, Tier};

fn main() {
    let args: Vec<String> = std::env::args().collect();
    if args.len() < 3 {
        eprintln!("usage: vcheck <Cxx> <quick|thorough|replay> [path]");
        std::process::exit(2);
    }
    let prop: &'static str = Box::leak(args[1].clone().into_boxed_str());
    let mode = args[2].as_str();
    vcore::util::install_panic_hook();
    if mode == "convert" {
        let raw = args.get(4).is_some_and(|x| x == "raw");
        vcore::ck_engine::convert(prop, &args[3], raw);
        return;
    }
    let report: Report = if mode == "replay" {
        let path = args.get(3).expect("replay needs a path");
        match prop {
            "C01" | "C03" | "C07" => vcore::ck_engine::replay(prop, path),
            "C08" => vcore::ck_crash::replay(path),
            "C11" => vcore::ck_backend::replay_backend(&vcore::ck_backend::MockBackend, path)
                .unwrap_or_else(|| vcore::Report { property: "C11".into(), ..Default::default() }),
            "C15" => vcore::ck_intern::replay(path),
            "C16" => vcore::ck_lfu::replay(path),
            "C05" => vcore::ck_cancel::replay(path),
            "C06" => vcore::ck_cycle::replay(path),
            "C04" => vcore::conc::replay("C04", path),
            "C02" => vcore::conc::replay("C02", path),
            "C09" => vcore::ck_storage::replay_c09(path),
            "C10" => vcore::ck_storage::replay_c10(path),
            _ => {
                eprintln!("no replay for {prop}");
                std::process::exit(2);
            }
        }
    } else {
        let tier = match std::env::var("VERIF_TIER").ok().as_deref().unwrap_or(mode)
        {
            "thorough" => Tier::Thorough,
            _ => Tier::Quick,
        };
        match prop {
            "C01" | "C03" | "C07" => vcore::ck_engine::check(prop, tier),
            "C08" => vcore::ck_crash::check(tier),
            "C11" => vcore::ck_backend::check_mock(tier),
            "C15" => vcore::ck_intern::check(tier),
            "C16" => vcore::ck_lfu::check(tier),
            "C05" => vcore::ck_cancel::check(tier),
            "C06" => vcore::ck_cycle::check(tier),
            "C04" => vcore::conc::check("C04", tier),
            "C02" => vcore::conc::check("C02", tier),
            "C09" => vcore::ck_storage::check_c09(tier),
            "C10" => vcore::ck_storage::check_c10(tier),
            _ => {
                eprintln!("unknown property {prop}");
                std::process::exit(2);
            }
        }
    };
    for k in &report.known {
        println!("{k}");
    }
    for (path, msg) in &report.violations {
        println!("VIOLATION property={} replay={}", report.property, path);
        println!("  {msg}");
    }
    for n in &report.inconclusive {
        println!("INCONCLUSIVE property={} {}", report.property, n);
    }
    if !report.violations.is_empty() {
        std::process::exit(1);
    }
    if !report.inconclusive.is_empty() {
        std::process::exit(2);
    }
    println!("OK property={}", report.property);
}
