//! `vcheck <property> <quick|thorough|replay> [path]`
//!
//! exit 0 = property held on everything explored (KNOWN-FINDING lines allowed)
//! exit 1 = violation, with a line `VIOLATION property=<id> replay=<path>`
//! exit 2 = inconclusive (watchdog, infrastructure)

use vcore::{Report, Tier};

fn main() {
    let args: Vec<String> = std::env::args().collect();
    if args.len() < 3 {
        eprintln!("usage: vcheck <Cxx> <quick|thorough|replay> [path]");
        std::process::exit(2);
    }
    let prop: &'static str = Box::leak(args[1].clone().into_boxed_str());
    let mode = args[2].as_str();
    if std::env::var_os("VERIF_WORKER").is_none() && mode != "convert" {
        supervise(prop, &args);
    }
    vcore::util::install_panic_hook();
    if mode == "replay" {
        // a case that killed the whole process (see `supervise`)
        if let Some(path) = args.get(3) {
            if let Ok(doc) = std::fs::read_to_string(path)
                .map_err(|_| ())
                .and_then(|t| serde_json::from_str::<serde_json::Value>(&t).map_err(|_| ()))
            {
                if doc.get("killed_by").is_some() {
                    replay_killer(prop, &doc);
                }
            }
        }
    }
    if mode == "convert" {
        let raw = args.get(4).is_some_and(|x| x == "raw");
        vcore::ck_engine::convert(prop, &args[3], raw);
        return;
    }
    let report: Report = if mode == "replay" {
        let path = args.get(3).expect("replay needs a path");
        match prop {
            "C01" | "C03" | "C07" => vcore::ck_engine::replay(prop, path),
            "C08" => vcore::ck_crash::replay(path),
            "C11" => vcore::ck_backend::replay_backend(&vcore::ck_backend::MockBackend, path)
                .unwrap_or_else(|| vcore::Report { property: "C11".into(), ..Default::default() }),
            "C15" => vcore::ck_intern::replay(path),
            "C16" => vcore::ck_lfu::replay(path),
            "C05" => vcore::ck_cancel::replay(path),
            "C06" => vcore::ck_cycle::replay(path),
            "C04" => vcore::conc::replay("C04", path),
            "C02" => vcore::conc::replay("C02", path),
            "C09" => vcore::ck_storage::replay_c09(path),
            "C10" => vcore::ck_storage::replay_c10(path),
            _ => {
                eprintln!("no replay for {prop}");
                std::process::exit(2);
            }
        }
    } else {
        let tier = match std::env::var("VERIF_TIER").ok().as_deref().unwrap_or(mode)
        {
            "thorough" => Tier::Thorough,
            _ => Tier::Quick,
        };
        match prop {
            "C01" | "C03" | "C07" => vcore::ck_engine::check(prop, tier),
            "C08" => vcore::ck_crash::check(tier),
            "C11" => vcore::ck_backend::check_mock(tier),
            "C15" => vcore::ck_intern::check(tier),
            "C16" => vcore::ck_lfu::check(tier),
            "C05" => vcore::ck_cancel::check(tier),
            "C06" => vcore::ck_cycle::check(tier),
            "C04" => vcore::conc::check("C04", tier),
            "C02" => vcore::conc::check("C02", tier),
            "C09" => vcore::ck_storage::check_c09(tier),
            "C10" => vcore::ck_storage::check_c10(tier),
            _ => {
                eprintln!("unknown property {prop}");
                std::process::exit(2);
            }
        }
    };
    for k in &report.known {
        println!("{k}");
    }
    for (path, msg) in &report.violations {
        println!("VIOLATION property={} replay={}", report.property, path);
        println!("  {msg}");
    }
    for n in &report.inconclusive {
        println!("INCONCLUSIVE property={} {}", report.property, n);
    }
    if !report.violations.is_empty() {
        std::process::exit(1);
    }
    if !report.inconclusive.is_empty() {
        std::process::exit(2);
    }
    println!("OK property={}", report.property);
}

fn run_worker(args: &[String], envs: &[(&str, String)]) -> std::process::ExitStatus {
    let mut c = std::process::Command::new(std::env::current_exe().expect("exe"));
    c.args(&args[1..]).env("VERIF_WORKER", "1");
    for (k, v) in envs {
        c.env(k, v);
    }
    c.status().expect("spawn worker")
}

fn describe(st: std::process::ExitStatus) -> String {
    use std::os::unix::process::ExitStatusExt;
    match (st.code(), st.signal()) {
        (_, Some(sig)) => format!("signal {sig}"),
        (Some(c), _) => format!("exit code {c}"),
        _ => "unknown status".into(),
    }
}

/// The check itself runs in a child process. A generated case may take the
/// whole process down (a panic inside a destructor that runs during another
/// panic aborts; so does a failed assertion in a background thread of the
/// code under test followed by panicking destructors). That must be reported
/// as a violation with a replayable case, not as a crashed check: the child
/// leaves the bytes of every case in flight on disk, and the candidates are
/// re-run one by one, each in its own process.
fn supervise(prop: &str, args: &[String]) -> ! {
    let dir = std::path::PathBuf::from(format!("/verif/target/current-{}", std::process::id()));
    let _ = std::fs::remove_dir_all(&dir);
    std::fs::create_dir_all(&dir).expect("scratch dir");
    let st = run_worker(args, &[("VERIF_CURRENT_DIR", dir.display().to_string())]);
    if let Some(c) = st.code() {
        if (0..=2).contains(&c) {
            let _ = std::fs::remove_dir_all(&dir);
            std::process::exit(c);
        }
    }
    println!("note: the checking process died ({}); looking for the case that killed it", describe(st));
    let mut cands: Vec<std::path::PathBuf> = std::fs::read_dir(&dir)
        .map(|d| d.filter_map(|e| e.ok().map(|e| e.path())).collect())
        .unwrap_or_default();
    cands.sort();
    let mode_args: Vec<String> = if args[2] == "replay" {
        // the replayed file itself is the case
        println!("VIOLATION property={prop} replay={}", args[3]);
        println!("  the process died ({}) while replaying this case", describe(st));
        let _ = std::fs::remove_dir_all(&dir);
        std::process::exit(1);
    } else {
        args.to_vec()
    };
    for c in cands {
        let name = c.file_name().unwrap().to_string_lossy().to_string();
        let Some(call) = name
            .strip_prefix("call")
            .and_then(|r| r.split('-').next())
            .and_then(|n| n.parse::<usize>().ok())
        else {
            continue;
        };
        let st2 = run_worker(
            &mode_args,
            &[
                ("VERIF_ONLY_BYTES", c.display().to_string()),
                ("VERIF_ONLY_CALL", call.to_string()),
                ("VERIF_NO_EVIDENCE", "1".into()),
            ],
        );
        match st2.code() {
            Some(0) | Some(2) => {}
            // the case fails in an orderly way on its own: the worker has
            // printed its VIOLATION line and written a structured replay
            Some(1) => {
                let _ = std::fs::remove_dir_all(&dir);
                std::process::exit(1);
            }
            _ => {
                let bytes = std::fs::read(&c).unwrap_or_default();
                let doc = serde_json::json!({
                    "property": prop,
                    "killed_by": describe(st2),
                    "mode": mode_args[2],
                    "drive_call": call,
                    "bytes": bytes,
                    "message": format!("the process died ({}) while this generated case was running", describe(st2)),
                });
                let path = vcore::driver::write_replay(prop, &doc, &format!("process died: {}", describe(st2)));
                println!("VIOLATION property={prop} replay={}", path.display());
                println!("  the process died ({}) while this generated case was running (replay re-runs it in a child process)", describe(st2));
                let _ = std::fs::remove_dir_all(&dir);
                std::process::exit(1);
            }
        }
    }
    println!("INCONCLUSIVE property={prop} the checking process died ({}) and no single case in flight reproduces it", describe(st));
    let _ = std::fs::remove_dir_all(&dir);
    std::process::exit(2);
}

/// Replay of a case recorded by `supervise`: this is the worker; run the
/// search restricted to exactly that case.
fn replay_killer(prop: &'static str, doc: &serde_json::Value) -> ! {
    let bytes: Vec<u8> = doc["bytes"]
        .as_array()
        .map(|a| a.iter().map(|x| x.as_u64().unwrap_or(0) as u8).collect())
        .unwrap_or_default();
    let tmp = std::path::PathBuf::from(format!("/verif/target/killer-{}.bin", std::process::id()));
    std::fs::write(&tmp, &bytes).expect("write");
    let exe = std::env::current_exe().expect("exe");
    let st = std::process::Command::new(exe)
        .args([prop, doc["mode"].as_str().unwrap_or("quick")])
        .env("VERIF_WORKER", "1")
        .env("VERIF_ONLY_BYTES", &tmp)
        .env("VERIF_ONLY_CALL", doc["drive_call"].as_u64().unwrap_or(0).to_string())
        .env("VERIF_NO_EVIDENCE", "1")
        .status()
        .expect("spawn");
    let _ = std::fs::remove_file(&tmp);
    match st.code() {
        Some(0) => {
            println!("OK property={prop}");
            std::process::exit(0)
        }
        Some(c @ 1..=2) => std::process::exit(c),
        _ => {
            println!("VIOLATION property={prop} replay=(this file)");
            println!("  the process died ({}) while this case was running", describe(st));
            std::process::exit(1)
        }
    }
}
