//! `vbackends C11 <quick|thorough|replay> [path]`: the C11 history check on
//! the real on-disk backends (RocksDB, Fjall). Same exit code convention as
//! `vcheck`.

use std::{
    path::PathBuf,
    sync::atomic::{AtomicU64, Ordering},
};

use qbice_serialize::Plugin;
use qbice_storage::kv_database::{fjall::Fjall, rocksdb::RocksDB};
use vcore::{
    Report, Tier,
    ck_backend::{BackendUnderTest, check_backend, replay_backend},
};

static N: AtomicU64 = AtomicU64::new(0);

fn scratch(tag: &str) -> PathBuf {
    let base = std::env::var("VERIF_SCRATCH").map_or_else(
        |_| {
            let mut p = std::env::current_exe().expect("exe");
            // <target>/debug/vbackends -> <target>/scratch
            p.pop();
            p.pop();
            p.join("scratch")
        },
        PathBuf::from,
    );
    let p = base.join(format!("c11-{tag}-{}-{}", std::process::id(), N.fetch_add(1, Ordering::Relaxed)));
    let _ = std::fs::remove_dir_all(&p);
    std::fs::create_dir_all(&p).expect("scratch dir");
    p
}

struct Rocks;
impl BackendUnderTest for Rocks {
    type Db = RocksDB;
    fn name(&self) -> &'static str { "RocksDB" }
    fn fresh(&self) -> (Box<dyn Fn() -> RocksDB>, Box<dyn FnOnce()>) {
        let dir = scratch("rocksdb");
        let d2 = dir.clone();
        (
            Box::new(move || RocksDB::open(&dir, Plugin::default()).expect("open rocksdb")),
            Box::new(move || {
                let _ = std::fs::remove_dir_all(d2);
            }),
        )
    }
}

struct Fj;
impl BackendUnderTest for Fj {
    type Db = Fjall;
    fn name(&self) -> &'static str { "Fjall" }
    fn fresh(&self) -> (Box<dyn Fn() -> Fjall>, Box<dyn FnOnce()>) {
        let dir = scratch("fjall");
        let d2 = dir.clone();
        (
            Box::new(move || Fjall::open(&dir, Plugin::default()).expect("open fjall")),
            Box::new(move || {
                let _ = std::fs::remove_dir_all(d2);
            }),
        )
    }
}

fn main() {
    let args: Vec<String> = std::env::args().collect();
    if args.len() < 3 || args[1] != "C11" {
        eprintln!("usage: vbackends C11 <quick|thorough|replay> [path]");
        std::process::exit(2);
    }
    vcore::util::install_panic_hook();
    let mut reports: Vec<Report> = Vec::new();
    if args[2] == "replay" {
        let path = args.get(3).expect("replay needs a path");
        reports.extend(replay_backend(&Rocks, path));
        reports.extend(replay_backend(&Fj, path));
    } else {
        let tier = if args[2] == "thorough" { Tier::Thorough } else { Tier::Quick };
        let (r, f) = if tier == Tier::Thorough { (4000, 4000) } else { (400, 400) };
        let only = std::env::var("VERIF_BACKEND").ok();
        if only.as_deref().is_none_or(|o| o == "RocksDB") {
            reports.push(check_backend(tier, &Rocks, r));
        }
        // evidence of the second backend is merged into the first's file
        // SAFETY: single-threaded at this point
        unsafe { std::env::set_var("VERIF_EVIDENCE_MERGE", "1") };
        if only.as_deref().is_none_or(|o| o == "Fjall") {
            reports.push(check_backend(tier, &Fj, f));
        }
    }
    let mut code = 0;
    for report in &reports {
        for (path, msg) in &report.violations {
            println!("VIOLATION property={} replay={}", report.property, path);
            println!("  {msg}");
            code = 1;
        }
        for n in &report.inconclusive {
            println!("INCONCLUSIVE property={} {}", report.property, n);
            if code == 0 {
                code = 2;
            }
        }
    }
    if code == 0 {
        println!("OK property=C11 (RocksDB, Fjall)");
    }
    std::process::exit(code);
}
